const cacache = require('cacache')
const pacote = require('pacote')
const fs = require('node:fs/promises')
const { join } = require('node:path')
const semver = require('semver')
const BaseCommand = require('../base-cmd.js')
const npa = require('npm-package-arg')
const jsonParse = require('json-parse-even-better-errors')
const localeCompare = require('@isaacs/string-locale-compare')('en')
const { log, output } = require('proc-log')

const searchCachePackage = async (path, parsed, cacheKeys) => {
  /* eslint-disable-next-line max-len */
  const searchMFH = new RegExp(`^make-fetch-happen:request-cache:.*(?<!/[@a-zA-Z]+)/${parsed.name}/-/(${parsed.name}[^/]+.tgz)$`)
  const searchPack = new RegExp(`^make-fetch-happen:request-cache:.*/${parsed.escapedName}$`)
  const results = new Set()
  cacheKeys = new Set(cacheKeys)
  for (const key of cacheKeys) {
    // match on the public key registry url format
    if (searchMFH.test(key)) {
      // extract the version from the filename
      const filename = key.match(searchMFH)[1]
      const noExt = filename.slice(0, -4)
      const noScope = `${parsed.name.split('/').pop()}-`
      const ver = noExt.slice(noScope.length)
      if (semver.satisfies(ver, parsed.rawSpec)) {
        results.add(key)
      }
      continue
    }
    // is this key a packument?
    if (!searchPack.test(key)) {
      continue
    }

    results.add(key)
    let packument, details
    try {
      details = await cacache.get(path, key)
      packument = jsonParse(details.data)
    } catch (_) {
      // if we couldn't parse the packument, abort
      continue
    }
    if (!packument.versions || typeof packument.versions !== 'object') {
      continue
    }

    // assuming this is a packument
    for (const ver of Object.keys(packument.versions)) {
      if (semver.satisfies(ver, parsed.rawSpec)) {
        if (packument.versions[ver].dist &&
          typeof packument.versions[ver].dist === 'object' &&
          packument.versions[ver].dist.tarball !== undefined &&
          cacheKeys.has(`make-fetch-happen:request-cache:${packument.versions[ver].dist.tarball}`)
        ) {
          results.add(`make-fetch-happen:request-cache:${packument.versions[ver].dist.tarball}`)
        }
      }
    }
  }
  return results
}

class Cache extends BaseCommand {
  static description = 'Manipulates packages cache'
  static name = 'cache'
  static params = ['cache']
  static usage = [
    'add <package-spec>',
    'clean [<key>]',
    'ls [<name>@<version>]',
    'verify',
  ]

  static async completion (opts) {
    const argv = opts.conf.argv.remain
    if (argv.length === 2) {
      return ['add', 'clean', 'verify', 'ls']
    }

    // TODO - eventually...
    switch (argv[2]) {
      case 'verify':
      case 'clean':
      case 'add':
      case 'ls':
        return []
    }
  }

  async exec (args) {
    const cmd = args.shift()
    switch (cmd) {
      case 'rm': case 'clear': case 'clean':
        return await this.clean(args)
      case 'add':
        return await this.add(args)
      case 'verify': case 'check':
        return await this.verify()
      case 'ls':
        return await this.ls(args)
      default:
        throw this.usageError()
    }
  }

  // npm cache clean [pkg]*
  async clean (args) {
    const cachePath = join(this.npm.cache, '_cacache')
    if (args.length === 0) {
      if (!this.npm.config.get('force')) {
        throw new Error(`As of npm@5, the npm cache self-heals from corruption issues
  by treating integrity mismatches as cache misses.  As a result,
  data extracted from the cache is guaranteed to be valid.  If you
  want to make sure everything is consistent, use \`npm cache verify\`
  instead.  Deleting the cache can only make npm go slower, and is
  not likely to correct any problems you may be encountering!

  On the other hand, if you're debugging an issue with the installer,
  or race conditions that depend on the timing of writing to an empty
  cache, you can use \`npm install --cache /tmp/empty-cache\` to use a
  temporary cache instead of nuking the actual one.

  If you're sure you want to delete the entire cache, rerun this command
  with --force.`)
      }
      return fs.rm(cachePath, { recursive: true, force: true })
    }
    for (const key of args) {
      let entry
      try {
        entry = await cacache.get(cachePath, key)
      } catch (err) {
        log.warn('cache', `Not Found: ${key}`)
        break
      }
      output.standard(`Deleted: ${key}`)
      await cacache.rm.entry(cachePath, key)
      // XXX this could leave other entries without content!
      await cacache.rm.content(cachePath, entry.integrity)
    }
  }

  // npm cache add <tarball-url>...
  // npm cache add <pkg> <ver>...
  // npm cache add <tarball>...
  // npm cache add <folder>...
  async add (args) {
    log.silly('cache add', 'args', args)
    if (args.length === 0) {
      throw this.usageError('First argument to `add` is required')
    }

    await Promise.all(args.map(async spec => {
      log.silly('cache add', 'spec', spec)
      // we ask pacote for the thing, and then just throw the data
      // away so that it tee-pipes it into the cache like it does
      // for a normal request.
      await pacote.tarball.stream(spec, stream => {
        stream.resume()
        return stream.promise()
      }, { ...this.npm.flatOptions })

      await pacote.manifest(spec, {
        ...this.npm.flatOptions,
        fullMetadata: true,
      })
    }))
  }

  async verify () {
    const cache = join(this.npm.cache, '_cacache')
    const prefix = cache.indexOf(process.env.HOME) === 0
      ? `~${cache.slice(process.env.HOME.length)}`
      : cache
    const stats = await cacache.verify(cache)
    output.standard(`Cache verified and compressed (${prefix})`)
    output.standard(`Content verified: ${stats.verifiedContent} (${stats.keptSize} bytes)`)
    if (stats.badContentCount) {
      output.standard(`Corrupted content removed: ${stats.badContentCount}`)
    }
    if (stats.reclaimedCount) {
      /* eslint-disable-next-line max-len */
      output.standard(`Content garbage-collected: ${stats.reclaimedCount} (${stats.reclaimedSize} bytes)`)
    }
    if (stats.missingContent) {
      output.standard(`Missing content: ${stats.missingContent}`)
    }
    output.standard(`Index entries: ${stats.totalEntries}`)
    output.standard(`Finished in ${stats.runTime.total / 1000}s`)
  }

  // npm cache ls [--package <spec> ...]
  async ls (specs) {
    const cachePath = join(this.npm.cache, '_cacache')
    const cacheKeys = Object.keys(await cacache.ls(cachePath))
    if (specs.length > 0) {
      // get results for each package spec specified
      const results = new Set()
      for (const spec of specs) {
        const parsed = npa(spec)
        if (parsed.rawSpec !== '' && parsed.type === 'tag') {
          throw this.usageError('Cannot list cache keys for a tagged package.')
        }
        const keySet = await searchCachePackage(cachePath, parsed, cacheKeys)
        for (const key of keySet) {
          results.add(key)
        }
      }
      [...results].sort(localeCompare).forEach(key => output.standard(key))
      return
    }
    cacheKeys.sort(localeCompare).forEach(key => output.standard(key))
  }
}

module.exports = Cache
