const { resolve } = require('node:path')
const libexec = require('libnpmexec')
const BaseCommand = require('../base-cmd.js')

class Exec extends BaseCommand {
  static description = 'Run a command from a local or remote npm package'
  static params = [
    'package',
    'call',
    'workspace',
    'workspaces',
    'include-workspace-root',
  ]

  static name = 'exec'
  static usage = [
    '-- <pkg>[@<version>] [args...]',
    '--package=<pkg>[@<version>] -- <cmd> [args...]',
    '-c \'<cmd> [args...]\'',
    '--package=foo -c \'<cmd> [args...]\'',
  ]

  static workspaces = true
  static ignoreImplicitWorkspace = false
  static isShellout = true

  async exec (args) {
    return this.callExec(args)
  }

  async execWorkspaces (args) {
    await this.setWorkspaces()

    for (const [name, path] of this.workspaces) {
      const locationMsg =
        `in workspace ${this.npm.chalk.green(name)} at location:\n${this.npm.chalk.dim(path)}`
      await this.callExec(args, { name, locationMsg, runPath: path })
    }
  }

  async callExec (args, { name, locationMsg, runPath } = {}) {
    let localBin = this.npm.localBin
    let pkgPath = this.npm.localPrefix

    // This is where libnpmexec will actually run the scripts from
    if (!runPath) {
      runPath = process.cwd()
    } else {
      // We have to consider if the workspace has its own separate versions
      // libnpmexec will walk up to localDir after looking here
      localBin = resolve(this.npm.localDir, name, 'node_modules', '.bin')
      // We also need to look for `bin` entries in the workspace package.json
      // libnpmexec will NOT look in the project root for the bin entry
      pkgPath = runPath
    }

    const call = this.npm.config.get('call')
    let globalPath
    const {
      flatOptions,
      globalBin,
      globalDir,
      chalk,
    } = this.npm
    const scriptShell = this.npm.config.get('script-shell') || undefined
    const packages = this.npm.config.get('package')
    const yes = this.npm.config.get('yes')
    // --prefix sets both of these to the same thing, meaning the global prefix
    // is invalid (i.e. no lib/node_modules).  This is not a trivial thing to
    // untangle and fix so we work around it here.
    if (this.npm.localPrefix !== this.npm.globalPrefix) {
      globalPath = resolve(globalDir, '..')
    }

    if (call && args.length) {
      throw this.usageError()
    }

    return libexec({
      ...flatOptions,
      // we explicitly set packageLockOnly to false because if it's true
      // when we try to install a missing package, we won't actually install it
      packageLockOnly: false,
      // what the user asked to run args[0] is run by default
      args: [...args], // copy args so they dont get mutated
      // specify a custom command to be run instead of args[0]
      call,
      chalk,
      // where to look for bins globally, if a file matches call or args[0] it is called
      globalBin,
      // where to look for packages globally, if a package matches call or args[0] it is called
      globalPath,
      // where to look for bins locally, if a file matches call or args[0] it is called
      localBin,
      locationMsg,
      // packages that need to be installed
      packages,
      // path where node_modules is
      path: this.npm.localPrefix,
      // where to look for package.json#bin entries first
      pkgPath,
      // cwd to run from
      runPath,
      scriptShell,
      yes,
    })
  }
}

module.exports = Exec
