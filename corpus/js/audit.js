const npmAuditReport = require('npm-audit-report')
const ArboristWorkspaceCmd = require('../arborist-cmd.js')
const auditError = require('../utils/audit-error.js')
const { log, output } = require('proc-log')
const reifyFinish = require('../utils/reify-finish.js')
const VerifySignatures = require('../utils/verify-signatures.js')

class Audit extends ArboristWorkspaceCmd {
  static description = 'Run a security audit'
  static name = 'audit'
  static params = [
    'audit-level',
    'dry-run',
    'force',
    'json',
    'package-lock-only',
    'package-lock',
    'omit',
    'include',
    'foreground-scripts',
    'ignore-scripts',
    ...super.params,
  ]

  static usage = ['[fix|signatures]']

  static async completion (opts) {
    const argv = opts.conf.argv.remain

    if (argv.length === 2) {
      return ['fix', 'signatures']
    }

    switch (argv[2]) {
      case 'fix':
      case 'signatures':
        return []
      default:
        throw Object.assign(new Error(argv[2] + ' not recognized'), {
          code: 'EUSAGE',
        })
    }
  }

  async exec (args) {
    if (args[0] === 'signatures') {
      await this.auditSignatures()
    } else {
      await this.auditAdvisories(args)
    }
  }

  async auditAdvisories (args) {
    const fix = args[0] === 'fix'
    if (this.npm.config.get('package-lock') === false && fix) {
      throw this.usageError('fix can not be used without a package-lock')
    }
    const reporter = this.npm.config.get('json') ? 'json' : 'detail'
    const Arborist = require('@npmcli/arborist')
    const opts = {
      ...this.npm.flatOptions,
      audit: true,
      path: this.npm.prefix,
      reporter,
      workspaces: this.workspaceNames,
    }

    const arb = new Arborist(opts)
    await arb.audit({ fix })
    if (fix) {
      await reifyFinish(this.npm, arb)
    } else {
      // will throw if there's an error, because this is an audit command
      auditError(this.npm, arb.auditReport)
      const result = npmAuditReport(arb.auditReport, {
        ...opts,
        chalk: this.npm.chalk,
      })
      process.exitCode = process.exitCode || result.exitCode
      output.standard(result.report)
    }
  }

  async auditSignatures () {
    if (this.npm.global) {
      throw Object.assign(
        new Error('`npm audit signatures` does not support global packages'), {
          code: 'EAUDITGLOBAL',
        }
      )
    }

    log.verbose('audit', 'loading installed dependencies')
    const Arborist = require('@npmcli/arborist')
    const opts = {
      ...this.npm.flatOptions,
      path: this.npm.prefix,
      workspaces: this.workspaceNames,
    }

    const arb = new Arborist(opts)
    const tree = await arb.loadActual()
    let filterSet = new Set()
    if (opts.workspaces && opts.workspaces.length) {
      filterSet =
        arb.workspaceDependencySet(
          tree,
          opts.workspaces,
          this.npm.flatOptions.includeWorkspaceRoot
        )
    } else if (!this.npm.flatOptions.workspacesEnabled) {
      filterSet =
        arb.excludeWorkspacesDependencySet(tree)
    }

    const verify = new VerifySignatures(tree, filterSet, this.npm, { ...opts })
    await verify.run()
  }
}

module.exports = Audit
