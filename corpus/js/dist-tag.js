const npa = require('npm-package-arg')
const regFetch = require('npm-registry-fetch')
const semver = require('semver')
const { log, output } = require('proc-log')
const { otplease } = require('../utils/auth.js')
const pkgJson = require('@npmcli/package-json')
const BaseCommand = require('../base-cmd.js')

class DistTag extends BaseCommand {
  static description = 'Modify package distribution tags'
  static params = ['workspace', 'workspaces', 'include-workspace-root']
  static name = 'dist-tag'
  static usage = [
    'add <package-spec (with version)> [<tag>]',
    'rm <package-spec> <tag>',
    'ls [<package-spec>]',
  ]

  static workspaces = true
  static ignoreImplicitWorkspace = false

  static async completion (opts) {
    const argv = opts.conf.argv.remain
    if (argv.length === 2) {
      return ['add', 'rm', 'ls']
    }

    switch (argv[2]) {
      default:
        return []
    }
  }

  async exec ([cmdName, pkg, tag]) {
    const opts = {
      ...this.npm.flatOptions,
    }

    if (['add', 'a', 'set', 's'].includes(cmdName)) {
      return this.add(pkg, tag, opts)
    }

    if (['rm', 'r', 'del', 'd', 'remove'].includes(cmdName)) {
      return this.remove(pkg, tag, opts)
    }

    if (['ls', 'l', 'sl', 'list'].includes(cmdName)) {
      return this.list(pkg, opts)
    }

    if (!pkg) {
      // when only using the pkg name the default behavior
      // should be listing the existing tags
      return this.list(cmdName, opts)
    } else {
      throw this.usageError()
    }
  }

  async execWorkspaces ([cmdName, pkg, tag]) {
    // cmdName is some form of list
    // pkg is one of:
    // - unset
    // - .
    // - .@version
    if (['ls', 'l', 'sl', 'list'].includes(cmdName) && (!pkg || pkg === '.' || /^\.@/.test(pkg))) {
      return this.listWorkspaces()
    }

    // pkg is unset
    // cmdName is one of:
    // - unset
    // - .
    // - .@version
    if (!pkg && (!cmdName || cmdName === '.' || /^\.@/.test(cmdName))) {
      return this.listWorkspaces()
    }

    // anything else is just a regular dist-tag command
    // so we fallback to the non-workspaces implementation
    log.warn('dist-tag', 'Ignoring workspaces for specified package')
    return this.exec([cmdName, pkg, tag])
  }

  async add (spec, tag, opts) {
    spec = npa(spec || '')
    const version = spec.rawSpec
    const defaultTag = tag || this.npm.config.get('tag')

    log.verbose('dist-tag add', defaultTag, 'to', spec.name + '@' + version)

    // make sure new spec with tag is valid, this will throw if invalid
    npa(`${spec.name}@${defaultTag}`)

    if (!spec.name || !version || !defaultTag) {
      throw this.usageError('must provide a spec with a name and version, and a tag to add')
    }

    const t = defaultTag.trim()

    if (semver.validRange(t)) {
      throw new Error('Tag name must not be a valid SemVer range: ' + t)
    }

    const tags = await this.fetchTags(spec, opts)
    if (tags[t] === version) {
      log.warn('dist-tag add', t, 'is already set to version', version)
      return
    }
    tags[t] = version
    const url =
      `/-/package/${spec.escapedName}/dist-tags/${encodeURIComponent(t)}`
    const reqOpts = {
      ...opts,
      method: 'PUT',
      body: JSON.stringify(version),
      headers: {
        'content-type': 'application/json',
      },
      spec,
    }
    await otplease(this.npm, reqOpts, o => regFetch(url, o))
    output.standard(`+${t}: ${spec.name}@${version}`)
  }

  async remove (spec, tag, opts) {
    spec = npa(spec || '')
    log.verbose('dist-tag del', tag, 'from', spec.name)

    if (!spec.name) {
      throw this.usageError()
    }

    const tags = await this.fetchTags(spec, opts)
    if (!tags[tag]) {
      log.info('dist-tag del', tag, 'is not a dist-tag on', spec.name)
      throw new Error(tag + ' is not a dist-tag on ' + spec.name)
    }
    const version = tags[tag]
    delete tags[tag]
    const url =
      `/-/package/${spec.escapedName}/dist-tags/${encodeURIComponent(tag)}`
    const reqOpts = {
      ...opts,
      method: 'DELETE',
      spec,
    }
    await otplease(this.npm, reqOpts, o => regFetch(url, o))
    output.standard(`-${tag}: ${spec.name}@${version}`)
  }

  async list (spec, opts) {
    if (!spec) {
      if (this.npm.global) {
        throw this.usageError()
      }
      const { content: { name } } = await pkgJson.normalize(this.npm.prefix)
      if (!name) {
        throw this.usageError()
      }

      return this.list(name, opts)
    }
    spec = npa(spec)

    try {
      const tags = await this.fetchTags(spec, opts)
      const msg =
        Object.keys(tags).map(k => `${k}: ${tags[k]}`).sort().join('\n')
      output.standard(msg)
      return tags
    } catch (err) {
      log.error('dist-tag ls', "Couldn't get dist-tag data for", spec)
      throw err
    }
  }

  async listWorkspaces () {
    await this.setWorkspaces()

    for (const name of this.workspaceNames) {
      try {
        output.standard(`${name}:`)
        await this.list(npa(name), this.npm.flatOptions)
      } catch (err) {
        // set the exitCode directly, but ignore the error
        // since it will have already been logged by this.list()
        process.exitCode = 1
      }
    }
  }

  async fetchTags (spec, opts) {
    const data = await regFetch.json(
      `/-/package/${spec.escapedName}/dist-tags`,
      { ...opts, 'prefer-online': true, spec }
    )
    if (data && typeof data === 'object') {
      delete data._etag
    }
    if (!data || !Object.keys(data).length) {
      throw new Error('No dist-tags found for ' + spec.name)
    }

    return data
  }
}

module.exports = DistTag
