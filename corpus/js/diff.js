const { resolve } = require('node:path')
const semver = require('semver')
const libnpmdiff = require('libnpmdiff')
const npa = require('npm-package-arg')
const pacote = require('pacote')
const pickManifest = require('npm-pick-manifest')
const { log, output } = require('proc-log')
const pkgJson = require('@npmcli/package-json')
const BaseCommand = require('../base-cmd.js')

class Diff extends BaseCommand {
  static description = 'The registry diff command'
  static name = 'diff'
  static usage = [
    '[...<paths>]',
  ]

  static params = [
    'diff',
    'diff-name-only',
    'diff-unified',
    'diff-ignore-all-space',
    'diff-no-prefix',
    'diff-src-prefix',
    'diff-dst-prefix',
    'diff-text',
    'global',
    'tag',
    'workspace',
    'workspaces',
    'include-workspace-root',
  ]

  static workspaces = true
  static ignoreImplicitWorkspace = false

  async exec (args) {
    const specs = this.npm.config.get('diff').filter(d => d)
    if (specs.length > 2) {
      throw this.usageError(`Can't use more than two --diff arguments.`)
    }

    // execWorkspaces may have set this already
    if (!this.prefix) {
      this.prefix = this.npm.prefix
    }

    // this is the "top" directory, one up from node_modules
    // in global mode we have to walk one up from globalDir because our
    // node_modules is sometimes under ./lib, and in global mode we're only ever
    // walking through node_modules (because we will have been given a package
    // name already)
    if (this.npm.global) {
      this.top = resolve(this.npm.globalDir, '..')
    } else {
      this.top = this.prefix
    }

    const [a, b] = await this.retrieveSpecs(specs)
    log.info('diff', { src: a, dst: b })

    const res = await libnpmdiff([a, b], {
      ...this.npm.flatOptions,
      diffFiles: args,
      where: this.top,
    })
    return output.standard(res)
  }

  async execWorkspaces (args) {
    await this.setWorkspaces()
    for (const workspacePath of this.workspacePaths) {
      this.top = workspacePath
      this.prefix = workspacePath
      await this.exec(args)
    }
  }

  // get the package name from the packument at `path`
  // throws if no packument is present OR if it does not have `name` attribute
  async packageName () {
    let name
    try {
      const { content: pkg } = await pkgJson.normalize(this.prefix)
      name = pkg.name
    } catch (e) {
      log.verbose('diff', 'could not read project dir package.json')
    }

    if (!name) {
      throw this.usageError('Needs multiple arguments to compare or run from a project dir.')
    }

    return name
  }

  async retrieveSpecs ([a, b]) {
    if (a && b) {
      const specs = await this.convertVersionsToSpecs([a, b])
      return this.findVersionsByPackageName(specs)
    }

    // no arguments, defaults to comparing cwd
    // to its latest published registry version
    if (!a) {
      const pkgName = await this.packageName()
      return [
        `${pkgName}@${this.npm.config.get('tag')}`,
        `file:${this.prefix}`,
      ]
    }

    // single argument, used to compare wanted versions of an
    // installed dependency or to compare the cwd to a published version
    let noPackageJson
    let pkgName
    try {
      const { content: pkg } = await pkgJson.normalize(this.prefix)
      pkgName = pkg.name
    } catch (e) {
      log.verbose('diff', 'could not read project dir package.json')
      noPackageJson = true
    }

    const missingPackageJson =
      this.usageError('Needs multiple arguments to compare or run from a project dir.')

    // using a valid semver range, that means it should just diff
    // the cwd against a published version to the registry using the
    // same project name and the provided semver range
    if (semver.validRange(a)) {
      if (!pkgName) {
        throw missingPackageJson
      }
      return [
        `${pkgName}@${a}`,
        `file:${this.prefix}`,
      ]
    }

    // when using a single package name as arg and it's part of the current
    // install tree, then retrieve the current installed version and compare
    // it against the same value `npm outdated` would suggest you to update to
    const spec = npa(a)
    if (spec.registry) {
      let actualTree
      let node
      const Arborist = require('@npmcli/arborist')
      try {
        const opts = {
          ...this.npm.flatOptions,
          path: this.top,
        }
        const arb = new Arborist(opts)
        actualTree = await arb.loadActual(opts)
        node = actualTree &&
          actualTree.inventory.query('name', spec.name)
            .values().next().value
      } catch (e) {
        log.verbose('diff', 'failed to load actual install tree')
      }

      if (!node || !node.name || !node.package || !node.package.version) {
        if (noPackageJson) {
          throw missingPackageJson
        }
        return [
          `${spec.name}@${spec.fetchSpec}`,
          `file:${this.prefix}`,
        ]
      }

      const tryRootNodeSpec = () =>
        (actualTree && actualTree.edgesOut.get(spec.name) || {}).spec

      const tryAnySpec = () => {
        for (const edge of node.edgesIn) {
          return edge.spec
        }
      }

      const aSpec = `file:${node.realpath}`

      // finds what version of the package to compare against, if a exact
      // version or tag was passed than it should use that, otherwise
      // work from the top of the arborist tree to find the original semver
      // range declared in the package that depends on the package.
      let bSpec
      if (spec.rawSpec !== '*') {
        bSpec = spec.rawSpec
      } else {
        const bTargetVersion =
          tryRootNodeSpec()
          || tryAnySpec()

        // figure out what to compare against,
        // follows same logic to npm outdated "Wanted" results
        const packument = await pacote.packument(spec, {
          ...this.npm.flatOptions,
          preferOnline: true,
        })
        bSpec = pickManifest(
          packument,
          bTargetVersion,
          { ...this.npm.flatOptions }
        ).version
      }

      return [
        `${spec.name}@${aSpec}`,
        `${spec.name}@${bSpec}`,
      ]
    } else if (spec.type === 'directory') {
      return [
        `file:${spec.fetchSpec}`,
        `file:${this.prefix}`,
      ]
    } else {
      throw this.usageError(`Spec type ${spec.type} not supported.`)
    }
  }

  async convertVersionsToSpecs ([a, b]) {
    const semverA = semver.validRange(a)
    const semverB = semver.validRange(b)

    // both specs are semver versions, assume current project dir name
    if (semverA && semverB) {
      let pkgName
      try {
        const { content: pkg } = await pkgJson.normalize(this.prefix)
        pkgName = pkg.name
      } catch (e) {
        log.verbose('diff', 'could not read project dir package.json')
      }

      if (!pkgName) {
        throw this.usageError('Needs to be run from a project dir in order to diff two versions.')
      }

      return [`${pkgName}@${a}`, `${pkgName}@${b}`]
    }

    // otherwise uses the name from the other arg to
    // figure out the spec.name of what to compare
    if (!semverA && semverB) {
      return [a, `${npa(a).name}@${b}`]
    }

    if (semverA && !semverB) {
      return [`${npa(b).name}@${a}`, b]
    }

    // no valid semver ranges used
    return [a, b]
  }

  async findVersionsByPackageName (specs) {
    let actualTree
    const Arborist = require('@npmcli/arborist')
    try {
      const opts = {
        ...this.npm.flatOptions,
        path: this.top,
      }
      const arb = new Arborist(opts)
      actualTree = await arb.loadActual(opts)
    } catch (e) {
      log.verbose('diff', 'failed to load actual install tree')
    }

    return specs.map(i => {
      const spec = npa(i)
      if (spec.rawSpec !== '*') {
        return i
      }

      const node = actualTree
        && actualTree.inventory.query('name', spec.name)
          .values().next().value

      const res = !node || !node.package || !node.package.version
        ? spec.fetchSpec
        : `file:${node.realpath}`

      return `${spec.name}@${res}`
    })
  }
}

module.exports = Diff
