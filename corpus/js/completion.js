// Each command has a completion function that takes an options object and a cb
// The callback gets called with an error and an array of possible completions.
// The options object is built up based on the environment variables set by
// zsh or bash when calling a function for completion, based on the cursor
// position and the command line thus far.  These are:
// COMP_CWORD: the index of the "word" in the command line being completed
// COMP_LINE: the full command line thusfar as a string
// COMP_POINT: the cursor index at the point of triggering completion
//
// We parse the command line with nopt, like npm does, and then create an
// options object containing:
// words: array of words in the command line
// w: the index of the word being completed (ie, COMP_CWORD)
// word: the word being completed
// line: the COMP_LINE
// lineLength
// point: the COMP_POINT, usually equal to line length, but not always, eg if
// the user has pressed the left-arrow to complete an earlier word
// partialLine: the line up to the point
// partialWord: the word being completed (which might be ''), up to the point
// conf: a nopt parse of the command line
//
// When the implementation completion method returns its list of strings,
// and arrays of strings, we filter that by any that start with the
// partialWord, since only those can possibly be valid matches.
//
// Matches are wrapped with ' to escape them, if necessary, and then printed
// one per line for the shell completion method to consume in IFS=$'\n' mode
// as an array.

const fs = require('node:fs/promises')
const nopt = require('nopt')
const { resolve } = require('node:path')
const { output } = require('proc-log')
const Npm = require('../npm.js')
const { definitions, shorthands } = require('@npmcli/config/lib/definitions')
const { commands, aliases, deref } = require('../utils/cmd-list.js')
const { isWindowsShell } = require('../utils/is-windows.js')
const BaseCommand = require('../base-cmd.js')

const fileExists = (file) => fs.stat(file).then(s => s.isFile()).catch(() => false)

const configNames = Object.keys(definitions)
const shorthandNames = Object.keys(shorthands)
const allConfs = configNames.concat(shorthandNames)

class Completion extends BaseCommand {
  static description = 'Tab Completion for npm'
  static name = 'completion'

  // completion for the completion command
  static async completion (opts) {
    if (opts.w > 2) {
      return
    }

    const [bashExists, zshExists] = await Promise.all([
      fileExists(resolve(process.env.HOME, '.bashrc')),
      fileExists(resolve(process.env.HOME, '.zshrc')),
    ])
    const out = []
    if (zshExists) {
      out.push(['>>', '~/.zshrc'])
    }

    if (bashExists) {
      out.push(['>>', '~/.bashrc'])
    }

    return out
  }

  async exec (args) {
    if (isWindowsShell) {
      const msg = 'npm completion supported only in MINGW / Git bash on Windows'
      throw Object.assign(new Error(msg), {
        code: 'ENOTSUP',
      })
    }

    const { COMP_CWORD, COMP_LINE, COMP_POINT, COMP_FISH } = process.env

    // if the COMP_* isn't in the env, then just dump the script.
    if (COMP_CWORD === undefined || COMP_LINE === undefined || COMP_POINT === undefined) {
      return dumpScript(resolve(this.npm.npmRoot, 'lib', 'utils', 'completion.sh'))
    }

    // ok we're actually looking at the envs and outputting the suggestions
    // get the partial line and partial word,
    // if the point isn't at the end.
    // ie, tabbing at: npm foo b|ar
    const w = +COMP_CWORD
    const words = args.map(unescape)
    const word = words[w]
    const line = COMP_LINE
    const point = +COMP_POINT
    const partialLine = line.slice(0, point)
    const partialWords = words.slice(0, w)

    // figure out where in that last word the point is.
    const partialWordRaw = args[w]
    let i = partialWordRaw.length
    while (partialWordRaw.slice(0, i) !== partialLine.slice(-1 * i) && i > 0) {
      i--
    }

    const partialWord = unescape(partialWordRaw.slice(0, i))
    partialWords.push(partialWord)

    const opts = {
      isFish: COMP_FISH === 'true',
      words,
      w,
      word,
      line,
      lineLength: line.length,
      point,
      partialLine,
      partialWords,
      partialWord,
      raw: args,
    }

    if (partialWords.slice(0, -1).indexOf('--') === -1) {
      if (word.charAt(0) === '-') {
        return this.wrap(opts, configCompl(opts))
      }

      if (words[w - 1] &&
        words[w - 1].charAt(0) === '-' &&
        !isFlag(words[w - 1])) {
        // awaiting a value for a non-bool config.
        // don't even try to do this for now
        return this.wrap(opts, configValueCompl(opts))
      }
    }

    // try to find the npm command.
    // it's the first thing after all the configs.
    // take a little shortcut and use npm's arg parsing logic.
    // don't have to worry about the last arg being implicitly
    // boolean'ed, since the last block will catch that.
    const types = Object.entries(definitions).reduce((acc, [key, def]) => {
      acc[key] = def.type
      return acc
    }, {})
    const parsed = opts.conf =
      nopt(types, shorthands, partialWords.slice(0, -1), 0)
    // check if there's a command already.
    const cmd = parsed.argv.remain[1]
    if (!cmd) {
      return this.wrap(opts, cmdCompl(opts, this.npm))
    }

    Object.keys(parsed).forEach(k => this.npm.config.set(k, parsed[k]))

    // at this point, if words[1] is some kind of npm command,
    // then complete on it.
    // otherwise, do nothing
    try {
      const { completion } = Npm.cmd(cmd)
      if (completion) {
        const comps = await completion(opts, this.npm)
        return this.wrap(opts, comps)
      }
    } catch {
      // it wasnt a valid command, so do nothing
    }
  }

  // The command should respond with an array.  Loop over that,
  // wrapping quotes around any that have spaces, and writing
  // them to stdout.
  // If any of the items are arrays, then join them with a space.
  // Ie, returning ['a', 'b c', ['d', 'e']] would allow it to expand
  // to: 'a', 'b c', or 'd' 'e'
  wrap (opts, compls) {
    // TODO this was dead code, leaving it in case we find some command we
    // forgot that requires this. if so *that command should fix its
    // completions*
    // compls = compls.map(w => !/\s+/.test(w) ? w : '\'' + w + '\'')

    if (opts.partialWord) {
      compls = compls.filter(c => c.startsWith(opts.partialWord))
    }

    if (compls.length > 0) {
      output.standard(compls.join('\n'))
    }
  }
}

const dumpScript = async (p) => {
  const d = (await fs.readFile(p, 'utf8')).replace(/^#!.*?\n/, '')
  await new Promise((res, rej) => {
    let done = false
    process.stdout.on('error', er => {
      if (done) {
        return
      }

      done = true

      // Darwin is a pain sometimes.
      //
      // This is necessary because the "source" or "." program in
      // bash on OS X closes its file argument before reading
      // from it, meaning that you get exactly 1 write, which will
      // work most of the time, and will always raise an EPIPE.
      //
      // Really, one should not be tossing away EPIPE errors, or any
      // errors, so casually.  But, without this, `. <(npm completion)`
      // can never ever work on OS X.
      // TODO Ignoring coverage, see 'non EPIPE errors cause failures' test.
      /* istanbul ignore next */
      if (er.errno === 'EPIPE') {
        res()
      } else {
        rej(er)
      }
    })

    process.stdout.write(d, () => {
      if (done) {
        return
      }

      done = true
      res()
    })
  })
}

const unescape = w => w.charAt(0) === '\'' ? w.replace(/^'|'$/g, '')
  : w.replace(/\\ /g, ' ')

// the current word has a dash.  Return the config names,
// with the same number of dashes as the current word has.
const configCompl = opts => {
  const word = opts.word
  const split = word.match(/^(-+)((?:no-)*)(.*)$/)
  const dashes = split[1]
  const no = split[2]
  const flags = configNames.filter(isFlag)
  return allConfs.map(c => dashes + c)
    .concat(flags.map(f => dashes + (no || 'no-') + f))
}

// expand with the valid values of various config values.
// not yet implemented.
const configValueCompl = () => []

// check if the thing is a flag or not.
const isFlag = word => {
  // shorthands never take args.
  const split = word.match(/^(-*)((?:no-)+)?(.*)$/)
  const no = split[2]
  const conf = split[3]
  const { type } = definitions[conf]
  return no ||
    type === Boolean ||
    (Array.isArray(type) && type.includes(Boolean)) ||
    shorthands[conf]
}

// complete against the npm commands
// if they all resolve to the same thing, just return the thing it already is
const cmdCompl = (opts) => {
  const allCommands = commands.concat(Object.keys(aliases))
  const matches = allCommands.filter(c => c.startsWith(opts.partialWord))
  if (!matches.length) {
    return matches
  }

  const derefs = new Set([...matches.map(c => deref(c))])
  if (derefs.size === 1) {
    return [...derefs]
  }

  return allCommands
}

module.exports = Completion
