/*
 * This file is part of the source code of the software program
 * Vampire. It is protected by applicable
 * copyright laws.
 *
 * This source code is distributed under the licence found here
 * https://vprover.github.io/license.html
 * and in the source directory
 */
/**
 * @file ClauseQueue.cpp
 * Implements class ClauseQueue of clause priority queues
 * @since 30/12/2007 Manchester
 */

#include "Debug/Tracer.hpp"

#include "Lib/Allocator.hpp"
#include "Lib/Random.hpp"
#include "Lib/Environment.hpp"

#if VDEBUG
#include "Clause.hpp"
#endif

#include "ClauseQueue.hpp"

#define MAX_HEIGHT 31

using namespace Lib;
using namespace Kernel;

ClauseQueue::ClauseQueue()
    : _height(0)
{
  void* mem = ALLOC_KNOWN(sizeof(Node)+MAX_HEIGHT*sizeof(Node*),
          "ClauseQueue::Node");
  _left = reinterpret_cast<Node*>(mem);
  _left->nodes[0] = 0;
}

/** Temporary!!! */
ClauseQueue::~ClauseQueue ()
{
  CALL("ClauseQueue::~ClauseQueue");

  removeAll();

  DEALLOC_KNOWN(_left,sizeof(Node)+MAX_HEIGHT*sizeof(Node*),"ClauseQueue::Node");
} // ClauseQueue::~ClauseQueue

/**
 * Bind @b v to @b t.
 * @pre @b v must previously be unbound
 */
void ClauseQueue::insert(Clause* c)
{
  CALL("ClauseQueue::insert");

  // select a random height between 0 and top
  unsigned h = 0;
  while (Random::getBit()) {
    h++;
  }
  if (h > _height) {
    if (_height < MAX_HEIGHT) {
      _height++;
    }
    h = _height;
    _left->nodes[h] = 0;
  }
  void* mem = ALLOC_KNOWN(sizeof(Node)+h*sizeof(Node*),
			  "ClauseQueue::Node");
  Node* newNode = reinterpret_cast<Node*>(mem);
  newNode->clause = c;

  // left is a node with a value smaller than that of newNode and having
  // a large enough height.
  // this node is on the left of the inserted one
  Node* left = _left;
  // lh is the height on which we search for the next node
  unsigned lh = _height;
  for (;;) {
    Node* next = left->nodes[lh];
    if (next == 0 || lessThan(c,next->clause)) {
      if (lh <= h) {
	left->nodes[lh] = newNode;
	newNode->nodes[lh] = next;
      }
      if (lh == 0) {
	return;
      }
      lh--;
      continue;
    }
    left = next;
  }
} // ClauseQueue::insert

/**
 * Remove the clause c from the queue.
 * @since 30/12/2007 Manchester
 */
bool ClauseQueue::remove(Clause* c)
{
  CALL("ClauseQueue::remove");

  unsigned h = _height;
  Node* left = _left;

  for (;;) {
    Node* next = left->nodes[h];
    if (next && c == next->clause) {
      unsigned height = h;
      // found, first change the links going to next
      for (;;) {
	left->nodes[h] = next->nodes[h];
	if (h == 0) {
	  break;
	}
	h--;
	while (left->nodes[h] != next) {
	  left = left->nodes[h];
	}
      }
      // deallocate the node
      DEALLOC_KNOWN(next,
		    sizeof(Node)+height*sizeof(Node*),
		    "ClauseQueue::Node");
      while (_height > 0 && ! _left->nodes[_height]) {
	_height--;
      }
      return true;
    }

    if (next == 0 || lessThan(c,next->clause)) {
      if(h==0) {

#if VDEBUG
       ClauseQueue::Iterator it(*this);
       while(it.hasNext()){
         ASS(it.next()!=c);
       }
#endif

	return false;
      }
      h--;
    }
    else {
      left = next;
    }
  }
} // ClauseQueue::remove


/**
 * Remove the leftmost clause c from the queue.
 * @since 30/12/2007 Manchester
 */
Clause* ClauseQueue::pop()
{
  CALL("ClauseQueue::pop");
  ASS(_height >= 0);
  ASS(_left->nodes[0] != 0);

  Node* node = _left->nodes[0];
  unsigned h = 0;
  _left->nodes[0] = node->nodes[0];
  while (h < _height && _left->nodes[h+1] == node) {
    h++;
    _left->nodes[h] = node->nodes[h];
  }
  // now h is the height of the node
  Clause* c = node->clause;

  // deallocate the node
  DEALLOC_KNOWN(node,
		sizeof(Node)+h*sizeof(Node*),
		"ClauseQueue::Node");
  while (_height > 0 && ! _left->nodes[_height]) {
    _height--;
  }

  return c;
} // ClauseQueue::pop

/**
 * Remove all clauses from the queue.
 * @since 31/12/2007 Manchester
 */
void ClauseQueue::removeAll()
{
  CALL("ClauseQueue::removeAll");

  while (_left->nodes[0]) {
    pop();
  }
} // removeAll

#if VDEBUG
void ClauseQueue::output(ostream& str) const
{
  for (const Node* node = _left->nodes[0]; node; node=node->nodes[0]) {
    str << node->clause->toString() << '\n';
  }
} // ClauseQueue::output
#endif
