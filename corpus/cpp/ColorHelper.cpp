/*
 * This file is part of the source code of the software program
 * Vampire. It is protected by applicable
 * copyright laws.
 *
 * This source code is distributed under the licence found here
 * https://vprover.github.io/license.html
 * and in the source directory
 */
/**
 * @file ColorHelper.cpp
 * Implements class ColorHelper.
 */

#include "Lib/DHMap.hpp"
#include "Lib/Environment.hpp"

#include "Saturation/SaturationAlgorithm.hpp"

#include "Shell/Options.hpp"

#include "Clause.hpp"
#include "TermTransformer.hpp"
#include "Inference.hpp"
#include "Renaming.hpp"
#include "Signature.hpp"
#include "Term.hpp"
#include "TermIterators.hpp"

#include "ColorHelper.hpp"

namespace Kernel
{

/**
 * Return true if symbol number @c functor is transparent. If @c predicate
 * is true, we assume @c functor to be predicate number, otherwise it is
 * a function number.
 */
bool ColorHelper::isTransparent(bool predicate, unsigned functor)
{
  CALL("ColorHelper::isTransparent");

  Signature::Symbol* sym;
  if (predicate) {
    sym = env.signature->getPredicate(functor);
  }
  else {
    sym = env.signature->getFunction(functor);
  }
  return sym->color()==COLOR_TRANSPARENT;
}

bool ColorHelper::hasColoredPredicates(Clause* c)
{
  CALL("ColorHelper::hasColoredPredicates");

  unsigned clen = c->length();
  for (unsigned i=0; i<clen; i++) {
    Literal* lit = (*c)[i];

    if (!isTransparent(true, lit->functor())) {
      return true;
    }
  }
  return false;
}

/**
 * collect all occurrences colored constants of a clause c in the stack acc
 * @since 04/05/2013 Manchester, improved to use new NonVariableIterator
 * @author Andrei Voronkov
 */
void ColorHelper::collectColoredConstants(Clause* c, Stack<Term*>& acc)
{
  CALL("ColorHelper::collectColoredConstants");

  unsigned clen = c->length();
  for (unsigned i=0; i<clen; i++) {
    Literal* lit = (*c)[i];

    NonVariableIterator tit(lit,true);
    while (tit.hasNext()) {
      Term* t = tit.next().term();
      if (t->color() == COLOR_TRANSPARENT) {
	tit.right();
	continue;
      }
      if (t->arity() == 0) {
	acc.push(t);
      }
    }
  }
} // collectColoredConstants

Clause* ColorHelper::skolemizeColoredConstants(Clause* c)
{
  CALL("ColorHelper::skolemizeColoredConstants");

  Stack<Term*> coloredConstants;
  collectColoredConstants(c,coloredConstants);
  if (coloredConstants.isEmpty()) {
    return 0;
  }

  unsigned clen = c->length();
  static LiteralStack resStack;
  resStack.reset();
  resStack.loadFromIterator(Clause::Iterator(*c));

  ASS_EQ(resStack.size(), clen);

  while (coloredConstants.isNonEmpty()) {
    TermList replaced = TermList(coloredConstants.pop());

    unsigned newFn = env.signature->addSkolemFunction(0);
    TermList newTrm = TermList(Term::create(newFn, 0, 0));

    for (unsigned i=0; i<clen; i++) {
      resStack[i] = SubtermReplacer(replaced, newTrm).transform(resStack[i]);
    }
  }
  Clause* res = Clause::fromStack(resStack, NonspecificInference1(InferenceRule::COLOR_UNBLOCKING, c));
  return res;
}

void ColorHelper::ensureSkolemReplacement(Term* t, TermMap& map)
{
  CALL("ColorHelper::ensureSkolemReplacement");

  //TODO: check also for generalization, or even better, first
  //find the most general colored terms, and make skolem replacements
  //only for those

  Term* norm = Renaming::normalize(t);
  if (map.find(norm)) {
    return;
  }
  unsigned varCnt = norm->getDistinctVars();
  unsigned newFn = env.signature->addSkolemFunction(varCnt, "CU");

  static Stack<TermList> argStack;
  argStack.reset();
  //variables in normalized term are X0,..X<varCnt-1>, so we put the
  //same into the Skolem term
  for (unsigned i=0; i<varCnt; i++) {
    argStack.push(TermList(i, false));
  }
  Term* replacement = Term::create(newFn, varCnt, argStack.begin());
  map.insert(norm, replacement);
}

void ColorHelper::collectSkolemReplacements(Clause* c, TermMap& map)
{
  CALL("ColorHelper::collectSkolemReplacements");

  unsigned clen = c->length();
  for (unsigned i=0; i<clen; i++) {
    Literal* lit = (*c)[i];

    NonVariableIterator tit(lit,true);
    while (tit.hasNext()) {
      Term* t = tit.next().term();
      if (!isTransparent(false, t->functor())) {
	ensureSkolemReplacement(t, map);
	//we will replace this term, so we do not descend into it
	tit.right();
      }
    }
  }
}

Term* ColorHelper::applyReplacement(Term* t, TermMap& map)
{
  CALL("ColorHelper::applyReplacement");

  Renaming r;
  r.normalizeVariables(t);
  Term* norm = r.apply(t);
  ASS(map.find(norm));
  Term* tgtNorm = map.get(norm);

  Renaming inv;
  inv.makeInverse(r);
  Term* tgt = inv.apply(tgtNorm);
  ASS(tgt->containsAllVariablesOf(t));
  ASS(t->containsAllVariablesOf(tgt));
  ASS_EQ(tgt->color(), COLOR_TRANSPARENT);
  return tgt;
}

Clause* ColorHelper::skolemizeColoredTerms(Clause* c)
{
  CALL("ColorHelper::skolemizeColoredTerms");

  static TermMap replMap;
  replMap.reset();

  collectSkolemReplacements(c, replMap);
  if (replMap.isEmpty()) {
    return 0;
  }

  static LiteralStack resStack;
  resStack.reset();

  unsigned clen = c->length();
  for (unsigned i=0; i<clen; i++) {
    Literal* lit = (*c)[i];
  start_replacing:
    NonVariableIterator nvit(lit);
    while (nvit.hasNext()) {
      Term* t = nvit.next().term();
      if (!isTransparent(false,t->functor())) {
	//here we each time remove at least one colored symbol
	Term* newTrm = applyReplacement(t,replMap);
	lit = SubtermReplacer(TermList(t),TermList(newTrm)).transform(lit);
	goto start_replacing;
      }
    }
    resStack.push(lit);
  }

  ASS_EQ(resStack.size(), clen);
  Clause* res = Clause::fromStack(resStack, NonspecificInference1(InferenceRule::COLOR_UNBLOCKING, c));
  return res;
}

void ColorHelper::tryUnblock(Clause* c, SaturationAlgorithm* salg)
{
  CALL("ColorHelper::tryUnblock");

//  if (hasOnlyColoredConstants(c)) {
  if (!hasColoredPredicates(c)) {
//    Clause* unblocked = skolemizeColoredConstants(c);
    Clause* unblocked = skolemizeColoredTerms(c);
    if (unblocked) {
      if (env.options->showBlocked()) {
	env.beginOutput();
	env.out()<<"Unblocking clause "<<unblocked->toString()<<endl;
	env.endOutput();
      }
      salg->addNewClause(unblocked);
    }
  }

}

} // namespace Kernel
