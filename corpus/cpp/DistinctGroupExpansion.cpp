/*
 * This file is part of the source code of the software program
 * Vampire. It is protected by applicable
 * copyright laws.
 *
 * This source code is distributed under the licence found here
 * https://vprover.github.io/license.html
 * and in the source directory
 */
/**
 * @file DistinctGroupExpansion.cpp
 * Expands distinct groups
 * @since 18/03/2015 Manchester
 * @author Giles
 */

#include "Lib/Environment.hpp"
#include "Lib/Stack.hpp"
#include "Lib/List.hpp"

#include "Kernel/Signature.hpp"
#include "Kernel/Problem.hpp"
#include "Kernel/Unit.hpp"
#include "Kernel/Term.hpp"
#include "Kernel/Formula.hpp"
#include "Kernel/FormulaUnit.hpp"
#include "Kernel/Inference.hpp"
#include "Kernel/SortHelper.hpp"
#include "Kernel/Connective.hpp"

#include "Options.hpp"
#include "DistinctGroupExpansion.hpp"

using namespace Shell;

/**
 * TODO check problem invalidation
 */
void DistinctGroupExpansion::apply(Problem& prb)
{
  CALL("DistinctGroupExpansion::apply(Problem&)");

  if(apply(prb.units())){
    prb.invalidateProperty();
    prb.reportFormulasAdded();
    prb.reportEqualityAdded(false); // Do we need to do this if adding disequality?
  }

}

/**
 * Attempts to expand each recorded distinct group
 * (this includes those for builtin sorts i.e. ints, strings...)
 * If all groups are expanded we indicate there are no distinct groups left, which will
 * prevent the distinct simplifier being added later
 */
bool DistinctGroupExpansion::apply(UnitList*& units)
{
  CALL("DistinctGroupExpansion::apply(UnitList*&)");

  bool added=false;

  Stack<Signature::DistinctGroupMembers>& group_members = env.signature->distinctGroupMembers();

  // If this is updated then make sure you update the check in
  // Kernel::Signature::Symol::addToDistinctGroup as well
  bool expandEverything = env.options->saturationAlgorithm()==Options::SaturationAlgorithm::FINITE_MODEL_BUILDING;

  bool someLeft = false;

  for(unsigned i=0;i<group_members.size();i++){
    Signature::DistinctGroupMembers members = group_members[i];
    if(members->size() > 0) {
      if( members->size()>1 && (members->size() <= EXPAND_UP_TO_SIZE || expandEverything)) {
        added=true;
        Formula* expansion = expand(*members);
        if(env.options->showPreprocessing()){
          env.out() << "  expansion adding " << expansion->toString() << endl;
        }
        // Currently we just say that these are from the Input, not $distinct or theory of ints
        UnitList::push(
          new FormulaUnit(expansion,NonspecificInference0(UnitInputType::AXIOM,InferenceRule::DISTINCTNESS_AXIOM)),
          units);
      }
      else someLeft=true;
    }
  } 

  if(!someLeft){
    env.signature->noDistinctGroupsLeft();
  }

  return added;
}

/**
 * If a distinct group of constants has 2 members then a single disequality is creatd
 * Otherwise a conjunction of disequalities is created
 */
Formula* DistinctGroupExpansion::expand(Stack<unsigned>& constants)
{
  CALL("DistinctGroupExpansion::expand");

  ASS(constants.size()>=2);
  // If there are 2 just create a disequality
  if(constants.size()==2){
    TermList a = TermList(Term::createConstant(constants[0]));
    TermList b = TermList(Term::createConstant(constants[1]));
    TermList sort = SortHelper::getResultSort(a.term()); //TODO where is the type of these constants set?
    return new AtomicFormula(Literal::createEquality(false,a,b,sort));
  }

  // Otherwise create a formula list of disequalities
  FormulaList* diseqs = 0; 

  for(unsigned i=0;i<constants.size();i++){
    TermList a = TermList(Term::createConstant(constants[i]));
    ASS(a.isSafe());
    TermList sort = SortHelper::getResultSort(a.term());

    for(unsigned j=0;j<i;j++){
      TermList b = TermList(Term::createConstant(constants[j]));
      ASS(b.isSafe());
      
      Formula* new_dis = new AtomicFormula(Literal::createEquality(false,a,b,sort));
      if(diseqs) FormulaList::push(new_dis,diseqs);
      else diseqs = new FormulaList(new_dis);

    }
  }

  // and create an AND junction of these
  return new JunctionFormula(Connective::AND, diseqs);

}

