/*
 * This file is part of the source code of the software program
 * Vampire. It is protected by applicable
 * copyright laws.
 *
 * This source code is distributed under the licence found here
 * https://vprover.github.io/license.html
 * and in the source directory
 */
/**
 * @file ELiteralSelector.cpp
 * Implements class ELiteralSelector.
 */

#include <algorithm>

#include "Lib/List.hpp"

#include "Term.hpp"
#include "Clause.hpp"

#include "ELiteralSelector.hpp"

using namespace std;
using namespace Lib;
using namespace Kernel;

LiteralList* ELiteralSelector::getMaximalsInOrder(Clause* c, unsigned eligible)
{
  CALL("ELiteralSelector::getMaximalsInOrder");

  LiteralList* res = LiteralList::empty();

  for(int li=((int)eligible)-1; li>=0; li--) {
    LiteralList::push((*c)[li],res);
  }

  _ord.removeNonMaximal(res);

  return res;
}

unsigned ELiteralSelector::lit_standard_diff(Literal* lit)
{
  CALL("ELiteralSelector::lit_standard_diff");

  if (lit->isEquality()) {
    unsigned w0 = lit->nthArgument(0)->weight();
    unsigned w1 = lit->nthArgument(1)->weight();
    return max(w0,w1)-min(w0,w1);
  } else {
    return lit->weight() - 1;
  }
}

/**
 * There is a similar macro in the code of E
 * called by the selections below.
 */
unsigned ELiteralSelector::lit_sel_diff_weight(Literal* lit)
{
  CALL("ELiteralSelector::lit_sel_diff_weight");

  return 100*lit_standard_diff(lit)+lit->weight();
}

void ELiteralSelector::doSelection(Clause* c, unsigned eligible)
{
  CALL("ELiteralSelector::doSelection");

  Literal* singleSel = nullptr;
  LiteralList* sel = LiteralList::empty();

  switch (_value) {
    case SelectNegativeLiterals: {
      for(int li=((int)eligible)-1; li>=0; li--) {
        Literal* lit=(*c)[li];
        if(isNegativeForSelection(lit)) {
          LiteralList::push(lit,sel);
        }
      }
      break;
    }
    case SelectPureVarNegLiterals: {
      for(int li=((int)eligible)-1; li>=0; li--) {
        Literal* lit=(*c)[li];
        if(isNegativeForSelection(lit) && lit->isTwoVarEquality()) {
          singleSel = lit;
          break;
        }
      }
      break;
    }
    case SelectSmallestNegLit: {
      for(int li=((int)eligible)-1; li>=0; li--) {
        Literal* lit=(*c)[li];
        if(isNegativeForSelection(lit)) {
          if (!singleSel || singleSel->weight() > lit->weight()) {
            singleSel = lit;
          }
        }
      }
      break;
    }
    case SelectDiffNegLit: {
      unsigned bestVal = 0;
      for(int li=((int)eligible)-1; li>=0; li--) {
        Literal* lit=(*c)[li];
        if(isNegativeForSelection(lit)) {
          unsigned val = lit_sel_diff_weight(lit);
          if (!singleSel || val > bestVal) {
            singleSel = lit;
            bestVal = val;
          }
        }
      }
      break;
    }
    case SelectGroundNegLit: {
      unsigned bestVal = 0;
      for(int li=((int)eligible)-1; li>=0; li--) {
        Literal* lit=(*c)[li];
        if(isNegativeForSelection(lit) && lit->ground()) {
          unsigned val = lit_sel_diff_weight(lit);
          if (!singleSel || val > bestVal) {
            singleSel = lit;
            bestVal = val;
          }
        }
      }
      break;
    }
    case SelectOptimalLit: {
      unsigned bestVal = 0;
      bool bestGround = false;
      for(int li=((int)eligible)-1; li>=0; li--) {
        Literal* lit=(*c)[li];
        if(isNegativeForSelection(lit) && (!bestGround || lit->ground())) {
          unsigned val = lit_sel_diff_weight(lit);
          if (!singleSel || (!bestGround && lit->ground()) || val > bestVal) {
            singleSel = lit;
            bestVal = val;
            bestGround = lit->ground();
          }
        }
      }
      break;
    }

  default:
    ASSERTION_VIOLATION;
  }

  if(singleSel) {
    LiteralList::destroy(sel);
    sel = LiteralList::empty();
    LiteralList::push(singleSel,sel);
  } else if (!sel) {
    sel = getMaximalsInOrder(c,eligible);
  }

  unsigned selCnt=0;

  for(unsigned li=0; sel; li++) {
    ASS(li<eligible);
    if((*c)[li]==sel->head()) {
      if(li!=selCnt) {
        swap((*c)[li], (*c)[selCnt]);
      }
      selCnt++;
      LiteralList::pop(sel);
    }
  }

  ASS(selCnt>0);

  c->setSelected(selCnt);

  ensureSomeColoredSelected(c, eligible);
}
