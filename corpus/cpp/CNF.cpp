/*
 * This file is part of the source code of the software program
 * Vampire. It is protected by applicable
 * copyright laws.
 *
 * This source code is distributed under the licence found here
 * https://vprover.github.io/license.html
 * and in the source directory
 */
/**
 * @file CNF.cpp
 * Implements class CNF implementing CNF transformation.
 * @since 19/01/2004 Manchester
 * @since 27/12/2007 Manchester, changed completely to a new implementation
 */

#include "Debug/Tracer.hpp"

#include "Kernel/Clause.hpp"
#include "Kernel/Formula.hpp"
#include "Kernel/Inference.hpp"
#include "Kernel/FormulaUnit.hpp"
#include "CNF.hpp"

using namespace Kernel;
using namespace Shell;

/**
 * Initialise the CNF object.
 * @since 27/12/2007 Manchester
 */
CNF::CNF()
  : _literals(16),
    _formulas(16)
{
} // CNF::CNF

/**
 * Convert @b unit to CNF and push the resulting clauses on @b stack
 * @pre @b unit must be a formula unit
 * @since 27/12/2007 Manchester
 */
void CNF::clausify (Unit* unit,Stack<Clause*>& stack)
{
  CALL("CNF::clausify/2");
  ASS(! unit->isClause());

  _unit = static_cast<FormulaUnit*>(unit);
  _result = &stack;
  _literals.reset();
  _formulas.reset();

  Formula* f = _unit->formula();
  switch (f->connective()) {
  case TRUE:
    return;
  case FALSE:
    {
      // create an empty clause and push it in the stack
      Clause* clause = new(0) Clause(0,
				     FormulaTransformation(InferenceRule::CLAUSIFY,unit));
      stack.push(clause);
    }
    return;
  default:
    clausify(f);
  }
} // CNF::clausify()


/**
 * Clausify the formula f \/ F1 \/ ... \/ Fn \/ L1 \/ ... \/ Lm,
 * where [F1,...,Fn] is the content of _formulas and [L1,...,Lm]
 * is the content of _literals. After the clausification restore
 * the stacks _formulas and _literals to their state before the call.
 *
 * @since 27/12/2007 Manchester
 */
void CNF::clausify (Formula* f)
{
  CALL("CNF::clausify/1");

  switch (f->connective()) {
  case LITERAL:
    _literals.push(f->literal());
    if (_formulas.isEmpty()) {
      // collect the clause
      int length = _literals.length();
      Clause* clause = new(length) Clause(length,
          FormulaTransformation(InferenceRule::CLAUSIFY,_unit));
      for (int i = length-1;i >= 0;i--) {
	(*clause)[i] = _literals[i];
      }
      _result->push(clause);
    }
    else {
      f = _formulas.pop();
      clausify(f);
      _formulas.push(f);
    }
    _literals.pop();
    return;

  case AND:
    {
      FormulaList::Iterator fs(f->args());
      while (fs.hasNext()) {
	clausify(fs.next());
      }
    }
    return;

  case OR:
    {
      int ln = _formulas.length();

      FormulaList::Iterator fs(f->args());
      while (fs.hasNext()) {
	_formulas.push(fs.next());
      }
      clausify(_formulas.pop());
      _formulas.truncate(ln);
    }
    return;

  case FORALL:
    clausify(f->qarg());
    return;

  default:
    ASSERTION_VIOLATION;
  }
} // CNF::clausify

