/*
 * This file is part of the source code of the software program
 * Vampire. It is protected by applicable
 * copyright laws.
 *
 * This source code is distributed under the licence found here
 * https://vprover.github.io/license.html
 * and in the source directory
 */
/**
 * @file DistinctProcessor.cpp
 * Implements class DistinctProcessor.
 */

#include "DistinctProcessor.hpp"

#include "Lib/Environment.hpp"

#include "Kernel/Formula.hpp"
#include "Kernel/FormulaUnit.hpp"
#include "Kernel/Signature.hpp"
#include "Kernel/Unit.hpp"

#include <cstring>

namespace Shell
{

//TODO: add expansion of non-top-level and negative distinct predicates

/**
 * True if 
 */
bool DistinctProcessor::isDistinctPred(Literal* l)
{
  CALL("DistinctProcessor::isDistinctPred");

  //this is a hacky way to check for disctnct predicates,
  //needs to be fixed once we have a proper sopport for
  //these in the signature

  //Moreover, this check turned out to be bottleneck, so it
  //had to be optimized. The original was:
  //return l->predicateName().substr(0,9)=="$distinct"
  const char* n = l->predicateName().c_str();
  return n[0]=='$' && memcmp(n+1,"distinct",8)==0;
}

bool DistinctProcessor::apply(FormulaUnit* unit, Unit*& res)
{
  CALL("DistinctProcessor::apply");

  Formula* form = unit->formula();


  static Stack<unsigned> distConsts;
  if(form->connective()==LITERAL) {
    Literal* tlLit = form->literal();
    if(isDistinctPred(tlLit) && tlLit->isPositive()) {
      distConsts.reset();
      bool justConsts = true;
      Literal::Iterator argIt(tlLit);
      while(argIt.hasNext()) {
	TermList a = argIt.next();
	if(!a.isTerm() || a.term()->arity()!=0) {
	  justConsts = false;
	  break;
	}
	distConsts.push(a.term()->functor());
      }

      if(justConsts) {
	unsigned grpIdx = env.signature->createDistinctGroup(unit);
	while(distConsts.isNonEmpty()) {
	  env.signature->addToDistinctGroup(distConsts.pop(), grpIdx);
	}
      }else{
        USER_ERROR("$distinct should only be used positively with constants");
      }
    }
  }

  return false;
}

bool DistinctProcessor::apply(Clause* cl, Unit*& res) {
  return false;
}

}
