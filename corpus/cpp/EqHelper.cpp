/*
 * This file is part of the source code of the software program
 * Vampire. It is protected by applicable
 * copyright laws.
 *
 * This source code is distributed under the licence found here
 * https://vprover.github.io/license.html
 * and in the source directory
 */
/**
 * @file EqHelper.cpp
 * Implements class EqHelper.
 */

#include "Lib/Environment.hpp"

#include "Shell/Options.hpp"

#include "Ordering.hpp"
#include "SortHelper.hpp"
#include "TermIterators.hpp"
#include "ApplicativeHelper.hpp"

#include "EqHelper.hpp"

namespace Kernel {

using namespace Shell;

/**
 * Return the other side of an equality @b eq than the @b lhs
 */
TermList EqHelper::getOtherEqualitySide(Literal* eq, TermList lhs)
{
  CALL("EqHelper::getOtherEqualitySide");
  ASS(eq->isEquality());

  if (*eq->nthArgument(0) == lhs) {
    return *eq->nthArgument(1);
  }
  ASS(*eq->nthArgument(1) == lhs);
  return *eq->nthArgument(0);
} // getOtherEqualitySide

bool EqHelper::hasGreaterEqualitySide(Literal* eq, const Ordering& ord, TermList& lhs, TermList& rhs)
{
  CALL("EqHelper::hasGreaterEqualitySide");
  ASS(eq->isEquality());

  switch(ord.getEqualityArgumentOrder(eq)) {
    case Ordering::INCOMPARABLE:
      return false;
    case Ordering::GREATER:
    case Ordering::GREATER_EQ:
      lhs = *eq->nthArgument(0);
      rhs = *eq->nthArgument(1);
      return true;
    case Ordering::LESS:
    case Ordering::LESS_EQ:
      lhs = *eq->nthArgument(1);
      rhs = *eq->nthArgument(0);
      return true;
    //there should be no equality literals of equal terms
    case Ordering::EQUAL:
      ASSERTION_VIOLATION;
  }
  ASSERTION_VIOLATION;
}

VirtualIterator<Term*> EqHelper::getSubtermIterator(Literal* lit, const Ordering& ord)
{
  CALL("EqHelper::getSubtermIterator");
  return getRewritableSubtermIterator<NonVariableNonTypeIterator>(lit, ord);
}

#if VHOL

TermIterator EqHelper::getBooleanSubtermIterator(Literal* lit, const Ordering& ord)
{
  CALL("EqHelper::getSubtermIterator");
  return getRewritableSubtermIterator<BooleanSubtermIt>(lit, ord);
}

VirtualIterator<Term*> EqHelper::getFoSubtermIterator(Literal* lit, const Ordering& ord)
{
  CALL("EqHelper::getFoSubtermIterator");
  return getRewritableSubtermIterator<FirstOrderSubtermIt>(lit, ord);
}

#endif

/**
 * Return iterator on subterms of a literal, that can be rewritten by
 * superposition.
 */
template<class SubtermIterator>
VirtualIterator<ELEMENT_TYPE(SubtermIterator)> EqHelper::getRewritableSubtermIterator(Literal* lit, const Ordering& ord)
{
  CALL("EqHelper::getRewritableSubtermIterator");

  if (lit->isEquality()) {
    TermList sel;
    switch(ord.getEqualityArgumentOrder(lit)) {
    case Ordering::INCOMPARABLE: {
      SubtermIterator si(lit);
      return getUniquePersistentIteratorFromPtr(&si);
    }
    case Ordering::EQUAL:
    case Ordering::GREATER:
    case Ordering::GREATER_EQ:
      sel=*lit->nthArgument(0);
      break;
    case Ordering::LESS:
    case Ordering::LESS_EQ:
      sel=*lit->nthArgument(1);
      break;
#if VDEBUG
    default:
      ASSERTION_VIOLATION;
#endif
    }
    if (!sel.isTerm()) {
      return VirtualIterator<ELEMENT_TYPE(SubtermIterator)>::getEmpty();
    }
    return getUniquePersistentIterator(vi(new SubtermIterator(sel.term(), true)));
  }

  SubtermIterator si(lit);
  return getUniquePersistentIteratorFromPtr(&si);

}


/**
 * Return iterator on sides of the equality @b lit that can be used as an LHS
 * for a rewriting inference (i.e. the other side of the equality is not greater)
 *
 * If the literal @b lit is not a positive equality, empty iterator is returned.
 */
TermIterator EqHelper::getLHSIterator(Literal* lit, const Ordering& ord)
{
  CALL("EqHelper::getLHSIterator");

  if (lit->isEquality()) {
    if (lit->isNegative()) {
      return TermIterator::getEmpty();
    }
    TermList t0=*lit->nthArgument(0);
    TermList t1=*lit->nthArgument(1);
    switch(ord.getEqualityArgumentOrder(lit))
    {
    case Ordering::INCOMPARABLE:
      return pvi( getConcatenatedIterator(getSingletonIterator(t0),
	      getSingletonIterator(t1)) );
    case Ordering::GREATER:
    case Ordering::GREATER_EQ:
      return pvi( getSingletonIterator(t0) );
    case Ordering::LESS:
    case Ordering::LESS_EQ:
      return pvi( getSingletonIterator(t1) );
    //there should be no equality literals of equal terms
    case Ordering::EQUAL:
      ASSERTION_VIOLATION;
    }
    return TermIterator::getEmpty();
  } else {
    return TermIterator::getEmpty();
  }
}

/**
 * A functor that returns true iff its argument is a non-variable term
 */
struct EqHelper::IsNonVariable
{
  bool operator()(TermList t)
  { return t.isTerm(); }
};

/**
 * Return iterator on sides of the equality @b lit that can be used as an LHS
 * for superposition
 *
 * If the literal @b lit is not a positive equality, empty iterator is returned.
 */
TermIterator EqHelper::getSuperpositionLHSIterator(Literal* lit, const Ordering& ord, const Options& opt)
{
  CALL("EqHelper::getSuperpositionLHSIterator");

  if (opt.superpositionFromVariables()) {
    return getLHSIterator(lit, ord);
  }
  else {
    return pvi( getFilteredIterator(getLHSIterator(lit, ord), IsNonVariable()) );
  }
}

/**
 * Return iterator on sides of the equality @b lit that can be used as an LHS
 * for demodulation
 *
 * If the literal @b lit is not a positive equality, empty iterator is returned.
 */
TermIterator EqHelper::getDemodulationLHSIterator(Literal* lit, bool forward, const Ordering& ord, const Options& opt)
{
  CALL("EqHelper::getDemodulationLHSIterator");

  if (lit->isEquality()) {
    if (lit->isNegative()) {
      return TermIterator::getEmpty();
    }
    TermList t0=*lit->nthArgument(0);
    TermList t1=*lit->nthArgument(1);
    switch(ord.getEqualityArgumentOrder(lit))
    {
    case Ordering::INCOMPARABLE:
      if ( forward ? (opt.forwardDemodulation() == Options::Demodulation::PREORDERED)
		  : (opt.backwardDemodulation() == Options::Demodulation::PREORDERED) ) {
        return TermIterator::getEmpty();
      }
      if (t0.containsAllVariablesOf(t1)) {
        if (t1.containsAllVariablesOf(t0)) {
          return pvi( getConcatenatedIterator(getSingletonIterator(t0),
              getSingletonIterator(t1)) );
        }
        return pvi( getSingletonIterator(t0) );
      }
      if (t1.containsAllVariablesOf(t0)) {
        return pvi( getSingletonIterator(t1) );
      }
      break;
    case Ordering::GREATER:
    case Ordering::GREATER_EQ:
      ASS(t0.containsAllVariablesOf(t1));
      return pvi( getSingletonIterator(t0) );
    case Ordering::LESS:
    case Ordering::LESS_EQ:
      ASS(t1.containsAllVariablesOf(t0));
      return pvi( getSingletonIterator(t1) );
    //there should be no equality literals of equal terms
    case Ordering::EQUAL:
      ASSERTION_VIOLATION;
    }
    return TermIterator::getEmpty();
  } else {
    return TermIterator::getEmpty();
  }
}

TermIterator EqHelper::getEqualityArgumentIterator(Literal* lit)
{
  CALL("EqHelper::getEqualityArgumentIterator");
  ASS(lit->isEquality());

  return pvi( getConcatenatedIterator(
	  getSingletonIterator(*lit->nthArgument(0)),
	  getSingletonIterator(*lit->nthArgument(1))) );
}


}
