// SPDX-License-Identifier: 0BSD
// SPDX-FileCopyrightText: The XZ for Java authors and contributors
// SPDX-FileContributor: Lasse Collin <lasse.collin@tukaani.org>

package org.tukaani.xz;

import java.lang.ref.Reference;
import java.lang.ref.SoftReference;
import java.util.Arrays;
import java.util.LinkedHashMap;
import java.util.Map;

/**
 * A basic {@link ArrayCache} implementation.
 * <p>
 * This caches exact array sizes, that is, {@code getByteArray} will return
 * an array whose size is exactly the requested size. A limited number
 * of different array sizes are cached at the same time; least recently used
 * sizes will be dropped from the cache if needed (can happen if several
 * different (de)compression options are used with the same cache).
 * <p>
 * The current implementation uses
 * {@link java.util.LinkedHashMap LinkedHashMap} to map different array sizes
 * to separate array-based data structures which hold
 * {@link java.lang.ref.SoftReference SoftReferences} to the cached arrays.
 * In the common case this should give good performance and fairly low
 * memory usage overhead.
 * <p>
 * A statically allocated global {@code BasicArrayCache} instance is
 * available via {@link #getInstance()} which is a good choice in most
 * situations where caching is wanted.
 *
 * @since 1.7
 */
public class BasicArrayCache extends ArrayCache {
    /**
     * Arrays smaller than this many elements will not be cached.
     */
    private static final int CACHEABLE_SIZE_MIN = 32 << 10;

    /**
     * Number of stacks i.e. how many different array sizes to cache.
     */
    private static final int STACKS_MAX = 32;

    /**
     * Number of arrays of the same type and size to keep in the cache.
     * (ELEMENTS_PER_STACK - 1) is used as a bit mask so ELEMENTS_PER_STACK
     * must be a power of two!
     */
    private static final int ELEMENTS_PER_STACK = 512;

    /**
     * A thread-safe stack-like data structure whose {@code push} method
     * overwrites the oldest element in the stack if the stack is full.
     */
    private static class CyclicStack<T> {
        /**
         * Array that holds the elements in the cyclic stack.
         */
        @SuppressWarnings("unchecked")
        private final T[] elements = (T[])new Object[ELEMENTS_PER_STACK];

        /**
         * Read-write position in the {@code refs} array.
         * The most recently added element is in {@code refs[pos]}.
         * If it is {@code null}, then the stack is empty and all
         * elements in {@code refs} are {@code null}.
         * <p>
         * Note that {@code pop()} always modifies {@code pos}, even if
         * the stack is empty. This means that when the first element is
         * added by {@code push(T)}, it can get added in any position in
         * {@code refs} and the stack will start growing from there.
         */
        private int pos = 0;

        /**
         * Gets the most recently added element from the stack.
         * If the stack is empty, {@code null} is returned.
         */
        public synchronized T pop() {
            T e = elements[pos];
            elements[pos] = null;
            pos = (pos - 1) & (ELEMENTS_PER_STACK - 1);
            return e;
        }

        /**
         * Adds a new element to the stack. If the stack is full, the oldest
         * element is overwritten.
         */
        public synchronized void push(T e) {
            pos = (pos + 1) & (ELEMENTS_PER_STACK - 1);
            elements[pos] = e;
        }
    }

    /**
     * Maps Integer (array size) to stacks of references to arrays. At most
     * STACKS_MAX number of stacks are kept in the map (LRU cache).
     */
    private static class CacheMap<T>
            extends LinkedHashMap<Integer, CyclicStack<Reference<T>>> {
        /**
         * This class won't be serialized but this is needed
         * to silence a compiler warning.
         */
        private static final long serialVersionUID = 1L;

        /**
         * Creates a new CacheMap.
         */
        public CacheMap() {
            // The map may momentarily have at most STACKS_MAX + 1 entries
            // when put(K,V) has inserted a new entry but hasn't called
            // removeEldestEntry yet. Using 2 * STACKS_MAX as the initial
            // (and the final) capacity should give good performance. 0.75 is
            // the default load factor and in this case it guarantees that
            // the map will never need to be rehashed because
            // (STACKS_MAX + 1) / 0.75 < 2 * STACKS_MAX.
            //
            // That last argument is true to get LRU cache behavior together
            // with the overridden removeEldestEntry method.
            super(2 * STACKS_MAX, 0.75f, true);
        }

        /**
         * Returns true if the map is full and the least recently used stack
         * should be removed.
         */
        @Override
        protected boolean removeEldestEntry(
                Map.Entry<Integer, CyclicStack<Reference<T>>> eldest) {
            return size() > STACKS_MAX;
        }
    }

    /**
     * Helper class for the singleton instance.
     * This is allocated only if {@code getInstance()} is called.
     */
    private static final class LazyHolder {
        static final BasicArrayCache INSTANCE = new BasicArrayCache();
    }

    /**
     * Returns a statically-allocated {@code BasicArrayCache} instance.
     * This is often a good choice when a cache is needed.
     */
    public static BasicArrayCache getInstance() {
        return LazyHolder.INSTANCE;
    }

    /**
     * Stacks for cached byte arrays.
     */
    private final CacheMap<byte[]> byteArrayCache = new CacheMap<byte[]>();

    /**
     * Stacks for cached int arrays.
     */
    private final CacheMap<int[]> intArrayCache = new CacheMap<int[]>();

    /**
     * Gets {@code T[size]} from the given {@code cache}.
     * If no such array is found, {@code null} is returned.
     */
    private static <T> T getArray(CacheMap<T> cache, int size) {
        // putArray doesn't add small arrays to the cache and so it's
        // pointless to look for small arrays here.
        if (size < CACHEABLE_SIZE_MIN)
            return null;

        // Try to find a stack that holds arrays of T[size].
        CyclicStack<Reference<T>> stack;
        synchronized(cache) {
            stack = cache.get(size);
        }

        if (stack == null)
            return null;

        // Try to find a non-cleared Reference from the stack.
        T array;
        do {
            Reference<T> r = stack.pop();
            if (r == null)
                return null;

            array = r.get();
        } while (array == null);

        return array;
    }

    /**
     * Puts the {@code array} of {@code size} elements long into
     * the {@code cache}.
     */
    private static <T> void putArray(CacheMap<T> cache, T array, int size) {
        // Small arrays aren't cached.
        if (size < CACHEABLE_SIZE_MIN)
            return;

        CyclicStack<Reference<T>> stack;

        synchronized(cache) {
            // Get a stack that holds arrays of T[size]. If no such stack
            // exists, allocate a new one. If the cache already had STACKS_MAX
            // number of stacks, the least recently used stack is removed by
            // cache.put (it calls removeEldestEntry).
            stack = cache.get(size);
            if (stack == null) {
                stack = new CyclicStack<Reference<T>>();
                cache.put(size, stack);
            }
        }

        stack.push(new SoftReference<T>(array));
    }

    /**
     * Allocates a new byte array, hopefully reusing an existing
     * array from the cache.
     *
     * @param       size        size of the array to allocate
     *
     * @param       fillWithZeros
     *                          if true, all the elements of the returned
     *                          array will be zero; if false, the contents
     *                          of the returned array is undefined
     */
    @Override
    public byte[] getByteArray(int size, boolean fillWithZeros) {
        byte[] array = getArray(byteArrayCache, size);

        if (array == null)
            array = new byte[size];
        else if (fillWithZeros)
            Arrays.fill(array, (byte)0x00);

        return array;
    }

    /**
     * Puts the given byte array to the cache. The caller must no longer
     * use the array.
     * <p>
     * Small arrays aren't cached and will be ignored by this method.
     */
    @Override
    public void putArray(byte[] array) {
        putArray(byteArrayCache, array, array.length);
    }

    /**
     * This is like getByteArray but for int arrays.
     */
    @Override
    public int[] getIntArray(int size, boolean fillWithZeros) {
        int[] array = getArray(intArrayCache, size);

        if (array == null)
            array = new int[size];
        else if (fillWithZeros)
            Arrays.fill(array, 0);

        return array;
    }

    /**
     * Puts the given int array to the cache. The caller must no longer
     * use the array.
     * <p>
     * Small arrays aren't cached and will be ignored by this method.
     */
    @Override
    public void putArray(int[] array) {
        putArray(intArrayCache, array, array.length);
    }
}
