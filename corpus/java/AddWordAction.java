/*
 *  JOrtho
 *
 *  Copyright (C) 2005-2010 by i-net software
 *
 *  This program is free software; you can redistribute it and/or
 *  modify it under the terms of the GNU General Public License as 
 *  published by the Free Software Foundation; either version 2 of the
 *  License, or (at your option) any later version. 
 *
 *  This program is distributed in the hope that it will be useful, but
 *  WITHOUT ANY WARRANTY; without even the implied warranty of
 *  MERCHANTABILITY or FITNESS FOR A PARTICULAR PURPOSE. See the GNU
 *  General Public License for more details.
 *
 *  You should have received a copy of the GNU General Public License
 *  along with this program; if not, write to the Free Software
 *  Foundation, Inc., 59 Temple Place, Suite 330, Boston, MA 02111-1307
 *  USA.
 *  
 * Created on 10.06.2010
 */
package com.inet.jortho;

import java.awt.event.ActionEvent;

import javax.swing.AbstractAction;
import javax.swing.text.JTextComponent;

public class AddWordAction extends AbstractAction {

    private String         word;

    private JTextComponent jText;

    /**
     * Create a action to add a word to the current user dictionary.
     * 
     * @param jText
     *            component that need refresh after adding to remove the red zigzag line
     * @param word
     *            the word that can be added
     */
    public AddWordAction( JTextComponent jText, String word ) {
        this( jText, word, Utils.getResource( "addToDictionary" ) );
    }

    /**
     * Create a action to add a word to the current user dictionary.
     * 
     * @param jText
     *            component that need refresh after adding to remove the red zigzag line
     * @param word
     *            the word that can be added
     * @param label
     *            the display text of the action
     */
    public AddWordAction( JTextComponent jText, String word, String label ) {
        super( label );
        this.word = word;
        this.jText = jText;
    }

    /**
     * Add the word to the current user directory.
     */
    public void actionPerformed( ActionEvent arg0 ) {
        UserDictionaryProvider provider = SpellChecker.getUserDictionaryProvider();
        if( provider != null ) {
            provider.addWord( word );
        }
        Dictionary dictionary = SpellChecker.getCurrentDictionary();
        dictionary.add( word );
        dictionary.trimToSize();
        AutoSpellChecker.refresh( jText );
    }

}
