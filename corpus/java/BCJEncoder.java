// SPDX-License-Identifier: 0BSD
// SPDX-FileCopyrightText: The XZ for Java authors and contributors
// SPDX-FileContributor: Lasse Collin <lasse.collin@tukaani.org>

package org.tukaani.xz;

class BCJEncoder extends BCJCoder implements FilterEncoder {
    private final BCJOptions options;
    private final long filterID;
    private final byte[] props;

    BCJEncoder(BCJOptions options, long filterID) {
        assert isBCJFilterID(filterID);
        int startOffset = options.getStartOffset();

        if (startOffset == 0) {
            props = new byte[0];
        } else {
            props = new byte[4];
            for (int i = 0; i < 4; ++i)
                props[i] = (byte)(startOffset >>> (i * 8));
        }

        this.filterID = filterID;
        this.options = (BCJOptions)options.clone();
    }

    @Override
    public long getFilterID() {
        return filterID;
    }

    @Override
    public byte[] getFilterProps() {
        return props;
    }

    @Override
    public boolean supportsFlushing() {
        return false;
    }

    @Override
    public FinishableOutputStream getOutputStream(FinishableOutputStream out,
                                                  ArrayCache arrayCache) {
        return options.getOutputStream(out, arrayCache);
    }
}
