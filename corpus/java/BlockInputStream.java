// SPDX-License-Identifier: 0BSD
// SPDX-FileCopyrightText: The XZ for Java authors and contributors
// SPDX-FileContributor: Lasse Collin <lasse.collin@tukaani.org>

package org.tukaani.xz;

import java.io.InputStream;
import java.io.DataInputStream;
import java.io.ByteArrayInputStream;
import java.io.IOException;
import java.util.Arrays;
import org.tukaani.xz.common.DecoderUtil;
import org.tukaani.xz.check.Check;

class BlockInputStream extends InputStream {
    private final DataInputStream inData;
    private final CountingInputStream inCounted;
    private InputStream filterChain;
    private final Check check;
    private final boolean verifyCheck;

    private long uncompressedSizeInHeader = -1;
    private long compressedSizeInHeader = -1;
    private long compressedSizeLimit;
    private final int headerSize;
    private long uncompressedSize = 0;
    private boolean endReached = false;

    private final byte[] tempBuf = new byte[1];

    public BlockInputStream(InputStream in,
                            Check check, boolean verifyCheck,
                            int memoryLimit,
                            long unpaddedSizeInIndex,
                            long uncompressedSizeInIndex,
                            ArrayCache arrayCache)
            throws IOException, IndexIndicatorException {
        this.check = check;
        this.verifyCheck = verifyCheck;
        inData = new DataInputStream(in);

        // Block Header Size or Index Indicator
        int b = inData.readUnsignedByte();

        // See if this begins the Index field.
        if (b == 0x00)
            throw new IndexIndicatorException();

        // Read the rest of the Block Header.
        headerSize = 4 * (b + 1);

        final byte[] buf = new byte[headerSize];
        buf[0] = (byte)b;
        inData.readFully(buf, 1, headerSize - 1);

        // Validate the CRC32.
        if (!DecoderUtil.isCRC32Valid(buf, 0, headerSize - 4, headerSize - 4))
            throw new CorruptedInputException("XZ Block Header is corrupt");

        // Check for reserved bits in Block Flags.
        if ((buf[1] & 0x3C) != 0)
            throw new UnsupportedOptionsException(
                    "Unsupported options in XZ Block Header");

        // Memory for the Filter Flags field
        int filterCount = (buf[1] & 0x03) + 1;
        long[] filterIDs = new long[filterCount];
        byte[][] filterProps = new byte[filterCount][];

        // Use a stream to parse the fields after the Block Flags field.
        // Exclude the CRC32 field at the end.
        ByteArrayInputStream bufStream = new ByteArrayInputStream(
                buf, 2, headerSize - 6);

        try {
            // Set the maximum valid compressed size. This is overridden
            // by the value from the Compressed Size field if it is present.
            compressedSizeLimit = (DecoderUtil.VLI_MAX & ~3)
                                  - headerSize - check.getSize();

            // Decode and validate Compressed Size if the relevant flag
            // is set in Block Flags.
            if ((buf[1] & 0x40) != 0x00) {
                compressedSizeInHeader = DecoderUtil.decodeVLI(bufStream);

                if (compressedSizeInHeader == 0
                        || compressedSizeInHeader > compressedSizeLimit)
                    throw new CorruptedInputException();

                compressedSizeLimit = compressedSizeInHeader;
            }

            // Decode Uncompressed Size if the relevant flag is set
            // in Block Flags.
            if ((buf[1] & 0x80) != 0x00)
                uncompressedSizeInHeader = DecoderUtil.decodeVLI(bufStream);

            // Decode Filter Flags.
            for (int i = 0; i < filterCount; ++i) {
                filterIDs[i] = DecoderUtil.decodeVLI(bufStream);

                long filterPropsSize = DecoderUtil.decodeVLI(bufStream);
                if (filterPropsSize > bufStream.available())
                    throw new CorruptedInputException();

                filterProps[i] = new byte[(int)filterPropsSize];
                bufStream.read(filterProps[i]);
            }

        } catch (IOException e) {
            throw new CorruptedInputException("XZ Block Header is corrupt");
        }

        // Check that the remaining bytes are zero.
        for (int i = bufStream.available(); i > 0; --i)
            if (bufStream.read() != 0x00)
                throw new UnsupportedOptionsException(
                        "Unsupported options in XZ Block Header");

        // Validate the Block Header against the Index when doing
        // random access reading.
        if (unpaddedSizeInIndex != -1) {
            // Compressed Data must be at least one byte, so if Block Header
            // and Check alone take as much or more space than the size
            // stored in the Index, the file is corrupt.
            int headerAndCheckSize = headerSize + check.getSize();
            if (headerAndCheckSize >= unpaddedSizeInIndex)
                throw new CorruptedInputException(
                        "XZ Index does not match a Block Header");

            // The compressed size calculated from Unpadded Size must
            // match the value stored in the Compressed Size field in
            // the Block Header.
            long compressedSizeFromIndex
                    = unpaddedSizeInIndex - headerAndCheckSize;
            if (compressedSizeFromIndex > compressedSizeLimit
                    || (compressedSizeInHeader != -1
                        && compressedSizeInHeader != compressedSizeFromIndex))
                throw new CorruptedInputException(
                        "XZ Index does not match a Block Header");

            // The uncompressed size stored in the Index must match
            // the value stored in the Uncompressed Size field in
            // the Block Header.
            if (uncompressedSizeInHeader != -1
                    && uncompressedSizeInHeader != uncompressedSizeInIndex)
                throw new CorruptedInputException(
                        "XZ Index does not match a Block Header");

            // For further validation, pretend that the values from the Index
            // were stored in the Block Header.
            compressedSizeLimit = compressedSizeFromIndex;
            compressedSizeInHeader = compressedSizeFromIndex;
            uncompressedSizeInHeader = uncompressedSizeInIndex;
        }

        // Check if the Filter IDs are supported, decode
        // the Filter Properties, and check that they are
        // supported by this decoder implementation.
        FilterDecoder[] filters = new FilterDecoder[filterIDs.length];

        for (int i = 0; i < filters.length; ++i) {
            if (filterIDs[i] == LZMA2Coder.FILTER_ID)
                filters[i] = new LZMA2Decoder(filterProps[i]);

            else if (filterIDs[i] == DeltaCoder.FILTER_ID)
                filters[i] = new DeltaDecoder(filterProps[i]);

            else if (BCJDecoder.isBCJFilterID(filterIDs[i]))
                filters[i] = new BCJDecoder(filterIDs[i], filterProps[i]);

            else
                throw new UnsupportedOptionsException(
                        "Unknown Filter ID " + filterIDs[i]);
        }

        RawCoder.validate(filters);

        // Check the memory usage limit.
        if (memoryLimit >= 0) {
            int memoryNeeded = 0;
            for (int i = 0; i < filters.length; ++i)
                memoryNeeded += filters[i].getMemoryUsage();

            if (memoryNeeded > memoryLimit)
                throw new MemoryLimitException(memoryNeeded, memoryLimit);
        }

        // Use an input size counter to calculate
        // the size of the Compressed Data field.
        inCounted = new CountingInputStream(in);

        // Initialize the filter chain.
        filterChain = inCounted;
        for (int i = filters.length - 1; i >= 0; --i)
            filterChain = filters[i].getInputStream(filterChain, arrayCache);
    }

    @Override
    public int read() throws IOException {
        return read(tempBuf, 0, 1) == -1 ? -1 : (tempBuf[0] & 0xFF);
    }

    @Override
    public int read(byte[] buf, int off, int len) throws IOException {
        if (endReached)
            return -1;

        int ret = filterChain.read(buf, off, len);

        if (ret > 0) {
            if (verifyCheck)
                check.update(buf, off, ret);

            uncompressedSize += ret;

            // Catch invalid values.
            long compressedSize = inCounted.getSize();
            if (compressedSize < 0
                    || compressedSize > compressedSizeLimit
                    || uncompressedSize < 0
                    || (uncompressedSizeInHeader != -1
                        && uncompressedSize > uncompressedSizeInHeader))
                throw new CorruptedInputException();

            // Check the Block integrity as soon as possible:
            //   - The filter chain shouldn't return less than requested
            //     unless it hit the end of the input.
            //   - If the uncompressed size is known, we know when there
            //     shouldn't be more data coming. We still need to read
            //     one byte to let the filter chain catch errors and to
            //     let it read end of payload marker(s).
            if (ret < len || uncompressedSize == uncompressedSizeInHeader) {
                if (filterChain.read() != -1)
                    throw new CorruptedInputException();

                validate();
                endReached = true;
            }
        } else if (ret == -1) {
            validate();
            endReached = true;
        }

        return ret;
    }

    private void validate() throws IOException {
        long compressedSize = inCounted.getSize();

        // Validate Compressed Size and Uncompressed Size if they were
        // present in Block Header.
        if ((compressedSizeInHeader != -1
                    && compressedSizeInHeader != compressedSize)
                || (uncompressedSizeInHeader != -1
                    && uncompressedSizeInHeader != uncompressedSize))
            throw new CorruptedInputException();

        // Block Padding bytes must be zeros.
        while ((compressedSize++ & 3) != 0)
            if (inData.readUnsignedByte() != 0x00)
                throw new CorruptedInputException();

        // Validate the integrity check if verifyCheck is true.
        byte[] storedCheck = new byte[check.getSize()];
        inData.readFully(storedCheck);
        if (verifyCheck && !Arrays.equals(check.finish(), storedCheck))
            throw new CorruptedInputException("Integrity check ("
                    + check.getName() + ") does not match");
    }

    @Override
    public int available() throws IOException {
        return filterChain.available();
    }

    @Override
    public void close() {
        // This puts all arrays, that were allocated from ArrayCache,
        // back to the ArrayCache. The last filter in the chain will
        // call inCounted.close() which, being an instance of
        // CloseIgnoringInputStream, won't close() the InputStream that
        // was provided by the application.
        try {
            filterChain.close();
        } catch (IOException e) {
            // It's a bug if we get here. The InputStreams that we are closing
            // are all from this package and they are known to not throw
            // IOException. (They could throw an IOException if we were
            // closing the application-supplied InputStream, but
            // inCounted.close() doesn't do that.)
            assert false;
        }

        filterChain = null;
    }

    public long getUnpaddedSize() {
        return headerSize + inCounted.getSize() + check.getSize();
    }

    public long getUncompressedSize() {
        return uncompressedSize;
    }
}
