/*
 *  JOrtho
 *
 *  Copyright (C) 2005-2009 by i-net software
 *
 *  This program is free software; you can redistribute it and/or
 *  modify it under the terms of the GNU General Public License as 
 *  published by the Free Software Foundation; either version 2 of the
 *  License, or (at your option) any later version. 
 *
 *  This program is distributed in the hope that it will be useful, but
 *  WITHOUT ANY WARRANTY; without even the implied warranty of
 *  MERCHANTABILITY or FITNESS FOR A PARTICULAR PURPOSE. See the GNU
 *  General Public License for more details.
 *
 *  You should have received a copy of the GNU General Public License
 *  along with this program; if not, write to the Free Software
 *  Foundation, Inc., 59 Temple Place, Suite 330, Boston, MA 02111-1307
 *  USA.
 *  
 *  Created on 05.11.2005
 */
package com.inet.jortho;

import java.util.Locale;

import javax.swing.*;
import javax.swing.event.*;
import javax.swing.text.*;
import javax.swing.text.Highlighter.Highlight;

/**
 * This class check a <code>JTextComponent</code> automatically (in the background) for orthography. Spell error are
 * highlighted with a red zigzag line.
 * 
 * @author Volker Berlin
 */
class AutoSpellChecker implements DocumentListener, LanguageChangeListener {
    private static final RedZigZagPainter painter = new RedZigZagPainter();

    private final JTextComponent                jText;
    private final SpellCheckerOptions options;

    private Dictionary                    dictionary;

    private Locale                        locale;

    
    public AutoSpellChecker(JTextComponent text, SpellCheckerOptions options){
        this.jText = text;
        this.options = options == null ? SpellChecker.getOptions() : options;
        jText.getDocument().addDocumentListener( this );

        SpellChecker.addLanguageChangeLister( this );
        dictionary = SpellChecker.getCurrentDictionary();
        locale = SpellChecker.getCurrentLocale();
        checkAll();
    }

    /**
     * Remove the AutoSpellChecker from the given JTextComponent.
     * 
     * @param text
     *            the JTextComponent
     */
    static void disable( JTextComponent text ){
        AbstractDocument doc = (AbstractDocument)text.getDocument();
        for(DocumentListener listener : doc.getDocumentListeners()){
            if(listener instanceof AutoSpellChecker){
                AutoSpellChecker autoSpell = (AutoSpellChecker)listener;
                doc.removeDocumentListener( autoSpell );
                removeHighlights(text);
            }
        }
    }

    /**
     * Remove all SpellChecker highlights from the given JTextComponent.
     * 
     * @param text
     *            the JTextComponent
     */
	private static void removeHighlights( JTextComponent text ) {
        Highlighter highlighter = text.getHighlighter();
        for( Highlight highlight : highlighter.getHighlights() ) {
            if( highlight.getPainter() == painter ) {
                highlighter.removeHighlight( highlight );
            }
        }
    }
    
    /**
     * Refresh the highlighting. This can be useful if the dictionary was modify.
     * 
     * @param text
     *            the JTextComponent
     */
    static void refresh( JTextComponent text ){
        AbstractDocument doc = (AbstractDocument)text.getDocument();
        for(DocumentListener listener : doc.getDocumentListeners()){
            if( listener instanceof AutoSpellChecker ){
                AutoSpellChecker autoSpell = (AutoSpellChecker)listener;
                autoSpell.checkAll();
            }
        }
    }

    /*====================================================================
     * 
     * Methods of interface DocumentListener
     * 
     *===================================================================*/

    /**
     * {@inheritDoc}
     */
    public void changedUpdate( DocumentEvent ev ) {
        //Nothing
    }

    /**
     * {@inheritDoc}
     */
    public void insertUpdate( DocumentEvent ev ) {
        checkElements( ev.getOffset(), ev.getLength() );
    }

    /**
     * {@inheritDoc}
     */
    public void removeUpdate( DocumentEvent ev ) {
        checkElements( ev.getOffset(), 0 );
    }

    /**
     * Check the Elements on the given position.
     */
    private void checkElements( int offset, int length ) {
        int end = offset + length;
        Document document = jText.getDocument();
        Element element;

        do{
            try {
                // We need to use a ParagraphElement because a CharacterElement produce problems with formating in a word
                element = ((AbstractDocument)document).getParagraphElement( offset );
            } catch( java.lang.Exception ex ) {
                return;
            }
            checkElement( element );
            int endOffset = element.getEndOffset();
            offset = endOffset > offset ? endOffset : offset + 1;
        }while( offset <= end && offset < document.getLength() );
    }

    /**
     * Check the spelling of the text of an element.
     * 
     * @param element
     *            the to checking Element
     */
    private void checkElement( javax.swing.text.Element element ) {
        try {
            int i = element.getStartOffset();
            int j = element.getEndOffset();
            Highlighter highlighter = jText.getHighlighter();
            Highlight[] highlights = highlighter.getHighlights();
            for( int k = highlights.length; --k >= 0; ) {
                Highlight highlight = highlights[k];
                int hlStartOffset = highlight.getStartOffset();
                int hlEndOffset = highlight.getEndOffset();
                if( (i <= hlStartOffset && hlStartOffset <= j) || 
                    (i <= hlEndOffset && hlEndOffset <= j) ) {
                    if( highlight.getPainter() == painter ) {
                        highlighter.removeHighlight( highlight );
                    }
                }
            }

            int l = ((AbstractDocument)jText.getDocument()).getLength();
            j = Math.min( j, l );
            if( i >= j )
                return;

            // prevent a NPE if the dictionary is currently not loaded.
            Dictionary dic = dictionary;
            Locale loc = locale;
            if( dic == null || loc == null ){
                return;
            }
            
            Tokenizer tok = new Tokenizer( jText, dic, loc, i, j, options );
            String word;
            while( (word = tok.nextInvalidWord()) != null ) {
                int wordOffset = tok.getWordOffset();
                highlighter.addHighlight( wordOffset, wordOffset + word.length(), painter );
            }
        } catch( BadLocationException e ) {
        	SpellChecker.getMessageHandler().handleException( e );
        }
    }

    /**
//     * Check the completely text. Because this can consume many times with large Documents that this will do in a thread
     * in the background step by step.
     */
    private void checkAll() {
        if( jText == null ) {
            //the needed objects does not exists
            return;
        }
        if( dictionary == null ) {
            removeHighlights( jText );
            return;
        }
        if( jText.getDocument().getLength() == 0 ){
            // no text, no highlights
            return;
        }

        Thread thread = new Thread( new Runnable() {
            public void run() {
                Document document = jText.getDocument();
                for( int i = 0; i < document.getLength(); ) {
                    try {
                        final Element element = ((AbstractDocument)document).getParagraphElement( i );
                        i = element.getEndOffset();
                        SwingUtilities.invokeLater( new Runnable() {
                            public void run() {
                                checkElement( element );
                            }

                        } );
                    } catch( java.lang.Exception ex ) {
                        return;
                    }
                }
            }
        }, "JOrtho checkall" );
        thread.setPriority( Thread.NORM_PRIORITY - 1 );
        thread.setDaemon( true );
        thread.start();
    }

    /**
     * {@inheritDoc}
     */
    public void languageChanged( LanguageChangeEvent ev ) {
        dictionary = SpellChecker.getCurrentDictionary();
        locale = SpellChecker.getCurrentLocale();
        checkAll();
    }

}
