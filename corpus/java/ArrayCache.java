// SPDX-License-Identifier: 0BSD
// SPDX-FileCopyrightText: The XZ for Java authors and contributors
// SPDX-FileContributor: Lasse Collin <lasse.collin@tukaani.org>

package org.tukaani.xz;

/**
 * Caches large arrays for reuse (base class and a dummy cache implementation).
 * <p>
 * When compressing or decompressing many (very) small files in a row, the
 * time spent in construction of new compressor or decompressor objects
 * can be longer than the time spent in actual compression or decompression.
 * A large part of this initialization overhead comes from allocation and
 * garbage collection of large arrays.
 * <p>
 * The {@code ArrayCache} API provides a way to cache large array allocations
 * for reuse. It can give a major performance improvement when compressing or
 * decompressing many tiny files. If you are only (de)compressing one or two
 * files or the files a very big, array caching won't improve anything,
 * although it won't make anything slower either.
 * <p>
 * <b>Important: The users of ArrayCache don't return the allocated arrays
 * back to the cache in all situations.</b>
 * This a reason why it's called a cache instead of a pool.
 * If it is important to be able to return every array back to a cache,
 * {@link ResettableArrayCache} can be useful.
 * <p>
 * In compressors (OutputStreams) the arrays are returned to the cache
 * when a call to {@code finish()} or {@code close()} returns
 * successfully (no exceptions are thrown).
 * <p>
 * In decompressors (InputStreams) the arrays are returned to the cache when
 * the decompression is successfully finished ({@code read} returns {@code -1})
 * or {@code close()} or {@code close(boolean)} is called. This is true even
 * if closing throws an exception.
 * <p>
 * Raw decompressors don't support {@code close(boolean)}. With raw
 * decompressors, if one wants to put the arrays back to the cache without
 * closing the underlying {@code InputStream}, one can wrap the
 * {@code InputStream} into {@link CloseIgnoringInputStream} when creating
 * the decompressor instance. Then one can use {@code close()}.
 * <p>
 * Different cache implementations can be extended from this base class.
 * All cache implementations must be thread safe.
 * <p>
 * This class also works as a dummy cache that simply calls {@code new}
 * to allocate new arrays and doesn't try to cache anything. A statically
 * allocated dummy cache is available via {@link #getDummyCache()}.
 * <p>
 * If no {@code ArrayCache} is specified when constructing a compressor or
 * decompressor, the default {@code ArrayCache} implementation is used.
 * See {@link #getDefaultCache()} and {@link #setDefaultCache(ArrayCache)}.
 * Since 1.10, the default can also be set using the system property
 * {@code org.tukaani.xz.ArrayCache}. Supported values are {@code Dummy}
 * (the default) and {@code Basic} (to use {@code BasicArrayCache}).
 * <p>
 * This is a class instead of an interface because it's possible that in the
 * future we may want to cache other array types too. New methods can be
 * added to this class without breaking existing cache implementations.
 *
 * @since 1.7
 *
 * @see BasicArrayCache
 */
public class ArrayCache {
    /**
     * Global dummy cache instance that is returned by {@code getDummyCache()}.
     */
    private static final ArrayCache dummyCache = new ArrayCache();

    /**
     * Global default {@code ArrayCache} that is used when no other cache has
     * been specified.
     */
    private static volatile ArrayCache defaultCache;

    static {
        String cacheType = System.getProperty("org.tukaani.xz.ArrayCache");
        if (cacheType == null)
            cacheType = "Dummy";

        switch (cacheType) {
            case "Dummy":
                defaultCache = dummyCache;
                break;

            case "Basic":
                defaultCache = BasicArrayCache.getInstance();
                break;

            default:
                throw new Error("Unsupported value '" + cacheType +
                                "' in the system property " +
                                "org.tukaani.xz.ArrayCache. " +
                                "Supported values: Dummy, Basic");
        }
    }

    /**
     * Returns a statically-allocated {@code ArrayCache} instance.
     * It can be shared by all code that needs a dummy cache.
     */
    public static ArrayCache getDummyCache() {
        return dummyCache;
    }

    /**
     * Gets the default {@code ArrayCache} instance.
     * This is a global cache that is used when the application
     * specifies nothing else. The default is a dummy cache
     * (see {@link #getDummyCache()}).
     */
    public static ArrayCache getDefaultCache() {
        // It's volatile so no need for synchronization.
        return defaultCache;
    }

    /**
     * Sets the default {@code ArrayCache} instance.
     * Use with care. Other libraries using this package probably shouldn't
     * call this function as libraries cannot know if there are other users
     * of the xz package in the same application.
     */
    public static void setDefaultCache(ArrayCache arrayCache) {
        if (arrayCache == null)
            throw new NullPointerException();

        // It's volatile so no need for synchronization.
        defaultCache = arrayCache;
    }

    /**
     * Creates a new {@code ArrayCache} that does no caching
     * (a dummy cache). If you need a dummy cache, you may want to call
     * {@link #getDummyCache()} instead.
     */
    public ArrayCache() {}

    /**
     * Allocates a new byte array.
     * <p>
     * This implementation simply returns {@code new byte[size]}.
     *
     * @param   size            the minimum size of the array to allocate;
     *                          an implementation may return an array that
     *                          is larger than the given {@code size}
     *
     * @param   fillWithZeros   if true, the caller expects that the first
     *                          {@code size} elements in the array are zero;
     *                          if false, the array contents can be anything,
     *                          which speeds things up when reusing a cached
     *                          array
     */
    public byte[] getByteArray(int size, boolean fillWithZeros) {
        return new byte[size];
    }

    /**
     * Puts the given byte array to the cache. The caller must no longer
     * use the array.
     * <p>
     * This implementation does nothing.
     */
    public void putArray(byte[] array) {}

    /**
     * Allocates a new int array.
     * <p>
     * This implementation simply returns {@code new int[size]}.
     *
     * @param   size            the minimum size of the array to allocate;
     *                          an implementation may return an array that
     *                          is larger than the given {@code size}
     *
     * @param   fillWithZeros   if true, the caller expects that the first
     *                          {@code size} elements in the array are zero;
     *                          if false, the array contents can be anything,
     *                          which speeds things up when reusing a cached
     *                          array
     */
    public int[] getIntArray(int size, boolean fillWithZeros) {
        return new int[size];
    }

    /**
     * Puts the given int array to the cache. The caller must no longer
     * use the array.
     * <p>
     * This implementation does nothing.
     */
    public void putArray(int[] array) {}
}
