// SPDX-License-Identifier: 0BSD
// SPDX-FileCopyrightText: The XZ for Java authors and contributors
// SPDX-FileContributor: Lasse Collin <lasse.collin@tukaani.org>

package org.tukaani.xz;

import java.io.InputStream;
import org.tukaani.xz.simple.*;

class BCJDecoder extends BCJCoder implements FilterDecoder {
    private final long filterID;
    private final int startOffset;

    BCJDecoder(long filterID, byte[] props)
            throws UnsupportedOptionsException {
        assert isBCJFilterID(filterID);
        this.filterID = filterID;

        if (props.length == 0) {
            startOffset = 0;
        } else if (props.length == 4) {
            int n = 0;
            for (int i = 0; i < 4; ++i)
                n |= (props[i] & 0xFF) << (i * 8);

            startOffset = n;
        } else {
            throw new UnsupportedOptionsException(
                    "Unsupported BCJ filter properties");
        }
    }

    @Override
    public int getMemoryUsage() {
        return SimpleInputStream.getMemoryUsage();
    }

    @Override
    public InputStream getInputStream(InputStream in, ArrayCache arrayCache) {
        SimpleFilter simpleFilter = null;

        if (filterID == X86_FILTER_ID)
            simpleFilter = new X86(false, startOffset);
        else if (filterID == POWERPC_FILTER_ID)
            simpleFilter = new PowerPC(false, startOffset);
        else if (filterID == IA64_FILTER_ID)
            simpleFilter = new IA64(false, startOffset);
        else if (filterID == ARM_FILTER_ID)
            simpleFilter = new ARM(false, startOffset);
        else if (filterID == ARMTHUMB_FILTER_ID)
            simpleFilter = new ARMThumb(false, startOffset);
        else if (filterID == SPARC_FILTER_ID)
            simpleFilter = new SPARC(false, startOffset);
        else if (filterID == ARM64_FILTER_ID)
            simpleFilter = new ARM64(false, startOffset);
        else if (filterID == RISCV_FILTER_ID)
            simpleFilter = new RISCVDecoder(startOffset);
        else
            assert false;

        return new SimpleInputStream(in, simpleFilter);
    }
}
