// SPDX-License-Identifier: 0BSD
// SPDX-FileCopyrightText: The XZ for Java authors and contributors
// SPDX-FileContributor: Lasse Collin <lasse.collin@tukaani.org>

package org.tukaani.xz;

abstract class BCJOptions extends FilterOptions {
    private final int alignment;
    int startOffset = 0;

    BCJOptions(int alignment) {
        this.alignment = alignment;
    }

    /**
     * Sets the start offset for the address conversions.
     * Normally this is useless so you shouldn't use this function.
     * The default value is {@code 0}.
     */
    public void setStartOffset(int startOffset)
            throws UnsupportedOptionsException {
        if ((startOffset & (alignment - 1)) != 0)
            throw new UnsupportedOptionsException(
                    "Start offset must be a multiple of " + alignment);

        this.startOffset = startOffset;
    }

    /**
     * Gets the start offset.
     */
    public int getStartOffset() {
        return startOffset;
    }

    @Override
    public int getEncoderMemoryUsage() {
        return SimpleOutputStream.getMemoryUsage();
    }

    @Override
    public int getDecoderMemoryUsage() {
        return SimpleInputStream.getMemoryUsage();
    }

    @Override
    public Object clone() {
        try {
            return super.clone();
        } catch (CloneNotSupportedException e) {
            assert false;
            throw new RuntimeException();
        }
    }
}
