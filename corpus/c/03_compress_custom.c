// SPDX-License-Identifier: 0BSD

///////////////////////////////////////////////////////////////////////////////
//
/// \file       03_compress_custom.c
/// \brief      Compress in multi-call mode using x86 BCJ and LZMA2
///
/// Usage:      ./03_compress_custom < INFILE > OUTFILE
///
/// Example:    ./03_compress_custom < foo > foo.xz
//
//  Author:     Lasse Collin
//
///////////////////////////////////////////////////////////////////////////////

#include <stdbool.h>
#include <stdlib.h>
#include <stdio.h>
#include <string.h>
#include <errno.h>
#include <lzma.h>


static bool
init_encoder(lzma_stream *strm)
{
	// Use the default preset (6) for LZMA2.
	//
	// The lzma_options_lzma structure and the lzma_lzma_preset() function
	// are declared in lzma/lzma12.h (src/liblzma/api/lzma/lzma12.h in the
	// source package or e.g. /usr/include/lzma/lzma12.h depending on
	// the install prefix).
	lzma_options_lzma opt_lzma2;
	if (lzma_lzma_preset(&opt_lzma2, LZMA_PRESET_DEFAULT)) {
		// It should never fail because the default preset
		// (and presets 0-9 optionally with LZMA_PRESET_EXTREME)
		// are supported by all stable liblzma versions.
		//
		// (The encoder initialization later in this function may
		// still fail due to unsupported preset *if* the features
		// required by the preset have been disabled at build time,
		// but no-one does such things except on embedded systems.)
		fprintf(stderr, "Unsupported preset, possibly a bug\n");
		return false;
	}

	// Now we could customize the LZMA2 options if we wanted. For example,
	// we could set the dictionary size (opt_lzma2.dict_size) to
	// something else than the default (8 MiB) of the default preset.
	// See lzma/lzma12.h for details of all LZMA2 options.
	//
	// The x86 BCJ filter will try to modify the x86 instruction stream so
	// that LZMA2 can compress it better. The x86 BCJ filter doesn't need
	// any options so it will be set to NULL below.
	//
	// Construct the filter chain. The uncompressed data goes first to
	// the first filter in the array, in this case the x86 BCJ filter.
	// The array is always terminated by setting .id = LZMA_VLI_UNKNOWN.
	//
	// See lzma/filter.h for more information about the lzma_filter
	// structure.
	lzma_filter filters[] = {
		{ .id = LZMA_FILTER_X86, .options = NULL },
		{ .id = LZMA_FILTER_LZMA2, .options = &opt_lzma2 },
		{ .id = LZMA_VLI_UNKNOWN, .options = NULL },
	};

	// Initialize the encoder using the custom filter chain.
	lzma_ret ret = lzma_stream_encoder(strm, filters, LZMA_CHECK_CRC64);

	if (ret == LZMA_OK)
		return true;

	const char *msg;
	switch (ret) {
	case LZMA_MEM_ERROR:
		msg = "Memory allocation failed";
		break;

	case LZMA_OPTIONS_ERROR:
		// We are no longer using a plain preset so this error
		// message has been edited accordingly compared to
		// 01_compress_easy.c.
		msg = "Specified filter chain is not supported";
		break;

	case LZMA_UNSUPPORTED_CHECK:
		msg = "Specified integrity check is not supported";
		break;

	default:
		msg = "Unknown error, possibly a bug";
		break;
	}

	fprintf(stderr, "Error initializing the encoder: %s (error code %u)\n",
			msg, ret);
	return false;
}


// This function is identical to the one in 01_compress_easy.c.
static bool
compress(lzma_stream *strm, FILE *infile, FILE *outfile)
{
	lzma_action action = LZMA_RUN;

	uint8_t inbuf[BUFSIZ];
	uint8_t outbuf[BUFSIZ];

	strm->next_in = NULL;
	strm->avail_in = 0;
	strm->next_out = outbuf;
	strm->avail_out = sizeof(outbuf);

	while (true) {
		if (strm->avail_in == 0 && !feof(infile)) {
			strm->next_in = inbuf;
			strm->avail_in = fread(inbuf, 1, sizeof(inbuf),
					infile);

			if (ferror(infile)) {
				fprintf(stderr, "Read error: %s\n",
						strerror(errno));
				return false;
			}

			if (feof(infile))
				action = LZMA_FINISH;
		}

		lzma_ret ret = lzma_code(strm, action);

		if (strm->avail_out == 0 || ret == LZMA_STREAM_END) {
			size_t write_size = sizeof(outbuf) - strm->avail_out;

			if (fwrite(outbuf, 1, write_size, outfile)
					!= write_size) {
				fprintf(stderr, "Write error: %s\n",
						strerror(errno));
				return false;
			}

			strm->next_out = outbuf;
			strm->avail_out = sizeof(outbuf);
		}

		if (ret != LZMA_OK) {
			if (ret == LZMA_STREAM_END)
				return true;

			const char *msg;
			switch (ret) {
			case LZMA_MEM_ERROR:
				msg = "Memory allocation failed";
				break;

			case LZMA_DATA_ERROR:
				msg = "File size limits exceeded";
				break;

			default:
				msg = "Unknown error, possibly a bug";
				break;
			}

			fprintf(stderr, "Encoder error: %s (error code %u)\n",
					msg, ret);
			return false;
		}
	}
}


extern int
main(void)
{
	lzma_stream strm = LZMA_STREAM_INIT;

	bool success = init_encoder(&strm);
	if (success)
		success = compress(&strm, stdin, stdout);

	lzma_end(&strm);

	if (fclose(stdout)) {
		fprintf(stderr, "Write error: %s\n", strerror(errno));
		success = false;
	}

	return success ? EXIT_SUCCESS : EXIT_FAILURE;
}
