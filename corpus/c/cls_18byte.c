/* Area:	ffi_call, closure_call
   Purpose:	Check structure passing with different structure size.
		Depending on the ABI. Double alignment check on darwin.
   Limitations:	none.
   PR:		none.
   Originator:	<andreast@gcc.gnu.org> 20030915	 */

/* { dg-do run } */
#include "ffitest.h"

typedef struct cls_struct_18byte {
  double a;
  unsigned char b;
  unsigned char c;
  double d;
} cls_struct_18byte;

cls_struct_18byte cls_struct_18byte_fn(struct cls_struct_18byte a1,
			    struct cls_struct_18byte a2)
{
  struct cls_struct_18byte result;

  result.a = a1.a + a2.a;
  result.b = a1.b + a2.b;
  result.c = a1.c + a2.c;
  result.d = a1.d + a2.d;


  printf("%g %d %d %g %g %d %d %g: %g %d %d %g\n", a1.a, a1.b, a1.c, a1.d,
	 a2.a, a2.b, a2.c, a2.d,
	 result.a, result.b, result.c, result.d);

  CHECK(a1.a == 1);
  CHECK(a1.b == 127);
  CHECK(a1.c == 126);
  CHECK(a1.d == 3);

  CHECK(a2.a == 4);
  CHECK(a2.b == 125);
  CHECK(a2.c == 124);
  CHECK(a2.d == 5);

  CHECK(result.a == 5);
  CHECK(result.b == 252);
  CHECK(result.c == 250);
  CHECK(result.d == 8);

  return result;
}

static void
cls_struct_18byte_gn(ffi_cif* cif __UNUSED__, void* resp, void** args,
		     void* userdata __UNUSED__)
{
  struct cls_struct_18byte a1, a2;

  a1 = *(struct cls_struct_18byte*)(args[0]);
  a2 = *(struct cls_struct_18byte*)(args[1]);

  *(cls_struct_18byte*)resp = cls_struct_18byte_fn(a1, a2);
}

int main (void)
{
  ffi_cif cif;
  void *code;
  ffi_closure *pcl = ffi_closure_alloc(sizeof(ffi_closure), &code);
  void* args_dbl[3];
  ffi_type* cls_struct_fields[5];
  ffi_type cls_struct_type;
  ffi_type* dbl_arg_types[3];

  struct cls_struct_18byte g_dbl = { 1.0, 127, 126, 3.0 };
  struct cls_struct_18byte f_dbl = { 4.0, 125, 124, 5.0 };
  struct cls_struct_18byte res_dbl;

  cls_struct_type.size = 0;
  cls_struct_type.alignment = 0;
  cls_struct_type.type = FFI_TYPE_STRUCT;
  cls_struct_type.elements = cls_struct_fields;

  cls_struct_fields[0] = &ffi_type_double;
  cls_struct_fields[1] = &ffi_type_uchar;
  cls_struct_fields[2] = &ffi_type_uchar;
  cls_struct_fields[3] = &ffi_type_double;
  cls_struct_fields[4] = NULL;

  dbl_arg_types[0] = &cls_struct_type;
  dbl_arg_types[1] = &cls_struct_type;
  dbl_arg_types[2] = NULL;

  CHECK(ffi_prep_cif(&cif, FFI_DEFAULT_ABI, 2, &cls_struct_type,
		     dbl_arg_types) == FFI_OK);

  args_dbl[0] = &g_dbl;
  args_dbl[1] = &f_dbl;
  args_dbl[2] = NULL;

  ffi_call(&cif, FFI_FN(cls_struct_18byte_fn), &res_dbl, args_dbl);
  /* { dg-output "1 127 126 3 4 125 124 5: 5 252 250 8" } */
  printf("res: %g %d %d %g\n", res_dbl.a, res_dbl.b, res_dbl.c, res_dbl.d);
  /* { dg-output "\nres: 5 252 250 8" } */
  CHECK(res_dbl.a == 5);
  CHECK(res_dbl.b == 252);
  CHECK(res_dbl.c == 250);
  CHECK(res_dbl.d == 8);

  CHECK(ffi_prep_closure_loc(pcl, &cif, cls_struct_18byte_gn, NULL, code) == FFI_OK);

  res_dbl = ((cls_struct_18byte(*)(cls_struct_18byte, cls_struct_18byte))(code))(g_dbl, f_dbl);
  /* { dg-output "\n1 127 126 3 4 125 124 5: 5 252 250 8" } */
  printf("res: %g %d %d %g\n", res_dbl.a, res_dbl.b, res_dbl.c, res_dbl.d);
  /* { dg-output "\nres: 5 252 250 8" } */
  CHECK(res_dbl.a == 5);
  CHECK(res_dbl.b == 252);
  CHECK(res_dbl.c == 250);
  CHECK(res_dbl.d == 8);

  exit(0);
}
