// SPDX-License-Identifier: 0BSD

///////////////////////////////////////////////////////////////////////////////
//
/// \file       01_compress_easy.c
/// \brief      Compress from stdin to stdout in multi-call mode
///
/// Usage:      ./01_compress_easy PRESET < INFILE > OUTFILE
///
/// Example:    ./01_compress_easy 6 < foo > foo.xz
//
//  Author:     Lasse Collin
//
///////////////////////////////////////////////////////////////////////////////

#include <stdbool.h>
#include <stdlib.h>
#include <stdio.h>
#include <string.h>
#include <errno.h>
#include <lzma.h>


static void
show_usage_and_exit(const char *argv0)
{
	fprintf(stderr, "Usage: %s PRESET < INFILE > OUTFILE\n"
			"PRESET is a number 0-9 and can optionally be "
			"followed by 'e' to indicate extreme preset\n",
			argv0);
	exit(EXIT_FAILURE);
}


static uint32_t
get_preset(int argc, char **argv)
{
	// One argument whose first char must be 0-9.
	if (argc != 2 || argv[1][0] < '0' || argv[1][0] > '9')
		show_usage_and_exit(argv[0]);

	// Calculate the preste level 0-9.
	uint32_t preset = argv[1][0] - '0';

	// If there is a second char, it must be 'e'. It will set
	// the LZMA_PRESET_EXTREME flag.
	if (argv[1][1] != '\0') {
		if (argv[1][1] != 'e' || argv[1][2] != '\0')
			show_usage_and_exit(argv[0]);

		preset |= LZMA_PRESET_EXTREME;
	}

	return preset;
}


static bool
init_encoder(lzma_stream *strm, uint32_t preset)
{
	// Initialize the encoder using a preset. Set the integrity to check
	// to CRC64, which is the default in the xz command line tool. If
	// the .xz file needs to be decompressed with XZ Embedded, use
	// LZMA_CHECK_CRC32 instead.
	lzma_ret ret = lzma_easy_encoder(strm, preset, LZMA_CHECK_CRC64);

	// Return successfully if the initialization went fine.
	if (ret == LZMA_OK)
		return true;

	// Something went wrong. The possible errors are documented in
	// lzma/container.h (src/liblzma/api/lzma/container.h in the source
	// package or e.g. /usr/include/lzma/container.h depending on the
	// install prefix).
	const char *msg;
	switch (ret) {
	case LZMA_MEM_ERROR:
		msg = "Memory allocation failed";
		break;

	case LZMA_OPTIONS_ERROR:
		msg = "Specified preset is not supported";
		break;

	case LZMA_UNSUPPORTED_CHECK:
		msg = "Specified integrity check is not supported";
		break;

	default:
		// This is most likely LZMA_PROG_ERROR indicating a bug in
		// this program or in liblzma. It is inconvenient to have a
		// separate error message for errors that should be impossible
		// to occur, but knowing the error code is important for
		// debugging. That's why it is good to print the error code
		// at least when there is no good error message to show.
		msg = "Unknown error, possibly a bug";
		break;
	}

	fprintf(stderr, "Error initializing the encoder: %s (error code %u)\n",
			msg, ret);
	return false;
}


static bool
compress(lzma_stream *strm, FILE *infile, FILE *outfile)
{
	// This will be LZMA_RUN until the end of the input file is reached.
	// This tells lzma_code() when there will be no more input.
	lzma_action action = LZMA_RUN;

	// Buffers to temporarily hold uncompressed input
	// and compressed output.
	uint8_t inbuf[BUFSIZ];
	uint8_t outbuf[BUFSIZ];

	// Initialize the input and output pointers. Initializing next_in
	// and avail_in isn't really necessary when we are going to encode
	// just one file since LZMA_STREAM_INIT takes care of initializing
	// those already. But it doesn't hurt much and it will be needed
	// if encoding more than one file like we will in 02_decompress.c.
	//
	// While we don't care about strm->total_in or strm->total_out in this
	// example, it is worth noting that initializing the encoder will
	// always reset total_in and total_out to zero. But the encoder
	// initialization doesn't touch next_in, avail_in, next_out, or
	// avail_out.
	strm->next_in = NULL;
	strm->avail_in = 0;
	strm->next_out = outbuf;
	strm->avail_out = sizeof(outbuf);

	// Loop until the file has been successfully compressed or until
	// an error occurs.
	while (true) {
		// Fill the input buffer if it is empty.
		if (strm->avail_in == 0 && !feof(infile)) {
			strm->next_in = inbuf;
			strm->avail_in = fread(inbuf, 1, sizeof(inbuf),
					infile);

			if (ferror(infile)) {
				fprintf(stderr, "Read error: %s\n",
						strerror(errno));
				return false;
			}

			// Once the end of the input file has been reached,
			// we need to tell lzma_code() that no more input
			// will be coming and that it should finish the
			// encoding.
			if (feof(infile))
				action = LZMA_FINISH;
		}

		// Tell liblzma do the actual encoding.
		//
		// This reads up to strm->avail_in bytes of input starting
		// from strm->next_in. avail_in will be decremented and
		// next_in incremented by an equal amount to match the
		// number of input bytes consumed.
		//
		// Up to strm->avail_out bytes of compressed output will be
		// written starting from strm->next_out. avail_out and next_out
		// will be incremented by an equal amount to match the number
		// of output bytes written.
		//
		// The encoder has to do internal buffering, which means that
		// it may take quite a bit of input before the same data is
		// available in compressed form in the output buffer.
		lzma_ret ret = lzma_code(strm, action);

		// If the output buffer is full or if the compression finished
		// successfully, write the data from the output buffer to
		// the output file.
		if (strm->avail_out == 0 || ret == LZMA_STREAM_END) {
			// When lzma_code() has returned LZMA_STREAM_END,
			// the output buffer is likely to be only partially
			// full. Calculate how much new data there is to
			// be written to the output file.
			size_t write_size = sizeof(outbuf) - strm->avail_out;

			if (fwrite(outbuf, 1, write_size, outfile)
					!= write_size) {
				fprintf(stderr, "Write error: %s\n",
						strerror(errno));
				return false;
			}

			// Reset next_out and avail_out.
			strm->next_out = outbuf;
			strm->avail_out = sizeof(outbuf);
		}

		// Normally the return value of lzma_code() will be LZMA_OK
		// until everything has been encoded.
		if (ret != LZMA_OK) {
			// Once everything has been encoded successfully, the
			// return value of lzma_code() will be LZMA_STREAM_END.
			//
			// It is important to check for LZMA_STREAM_END. Do not
			// assume that getting ret != LZMA_OK would mean that
			// everything has gone well.
			if (ret == LZMA_STREAM_END)
				return true;

			// It's not LZMA_OK nor LZMA_STREAM_END,
			// so it must be an error code. See lzma/base.h
			// (src/liblzma/api/lzma/base.h in the source package
			// or e.g. /usr/include/lzma/base.h depending on the
			// install prefix) for the list and documentation of
			// possible values. Most values listen in lzma_ret
			// enumeration aren't possible in this example.
			const char *msg;
			switch (ret) {
			case LZMA_MEM_ERROR:
				msg = "Memory allocation failed";
				break;

			case LZMA_DATA_ERROR:
				// This error is returned if the compressed
				// or uncompressed size get near 8 EiB
				// (2^63 bytes) because that's where the .xz
				// file format size limits currently are.
				// That is, the possibility of this error
				// is mostly theoretical unless you are doing
				// something very unusual.
				//
				// Note that strm->total_in and strm->total_out
				// have nothing to do with this error. Changing
				// those variables won't increase or decrease
				// the chance of getting this error.
				msg = "File size limits exceeded";
				break;

			default:
				// This is most likely LZMA_PROG_ERROR, but
				// if this program is buggy (or liblzma has
				// a bug), it may be e.g. LZMA_BUF_ERROR or
				// LZMA_OPTIONS_ERROR too.
				//
				// It is inconvenient to have a separate
				// error message for errors that should be
				// impossible to occur, but knowing the error
				// code is important for debugging. That's why
				// it is good to print the error code at least
				// when there is no good error message to show.
				msg = "Unknown error, possibly a bug";
				break;
			}

			fprintf(stderr, "Encoder error: %s (error code %u)\n",
					msg, ret);
			return false;
		}
	}
}


extern int
main(int argc, char **argv)
{
	// Get the preset number from the command line.
	uint32_t preset = get_preset(argc, argv);

	// Initialize a lzma_stream structure. When it is allocated on stack,
	// it is simplest to use LZMA_STREAM_INIT macro like below. When it
	// is allocated on heap, using memset(strmptr, 0, sizeof(*strmptr))
	// works (as long as NULL pointers are represented with zero bits
	// as they are on practically all computers today).
	lzma_stream strm = LZMA_STREAM_INIT;

	// Initialize the encoder. If it succeeds, compress from
	// stdin to stdout.
	bool success = init_encoder(&strm, preset);
	if (success)
		success = compress(&strm, stdin, stdout);

	// Free the memory allocated for the encoder. If we were encoding
	// multiple files, this would only need to be done after the last
	// file. See 02_decompress.c for handling of multiple files.
	//
	// It is OK to call lzma_end() multiple times or when it hasn't been
	// actually used except initialized with LZMA_STREAM_INIT.
	lzma_end(&strm);

	// Close stdout to catch possible write errors that can occur
	// when pending data is flushed from the stdio buffers.
	if (fclose(stdout)) {
		fprintf(stderr, "Write error: %s\n", strerror(errno));
		success = false;
	}

	return success ? EXIT_SUCCESS : EXIT_FAILURE;
}
