// SPDX-License-Identifier: 0BSD

///////////////////////////////////////////////////////////////////////////////
//
/// \file       02_decompress.c
/// \brief      Decompress .xz files to stdout
///
/// Usage:      ./02_decompress INPUT_FILES... > OUTFILE
///
/// Example:    ./02_decompress foo.xz bar.xz > foobar
//
//  Author:     Lasse Collin
//
///////////////////////////////////////////////////////////////////////////////

#include <stdbool.h>
#include <stdlib.h>
#include <stdio.h>
#include <string.h>
#include <errno.h>
#include <lzma.h>


static bool
init_decoder(lzma_stream *strm)
{
	// Initialize a .xz decoder. The decoder supports a memory usage limit
	// and a set of flags.
	//
	// The memory usage of the decompressor depends on the settings used
	// to compress a .xz file. It can vary from less than a megabyte to
	// a few gigabytes, but in practice (at least for now) it rarely
	// exceeds 65 MiB because that's how much memory is required to
	// decompress files created with "xz -9". Settings requiring more
	// memory take extra effort to use and don't (at least for now)
	// provide significantly better compression in most cases.
	//
	// Memory usage limit is useful if it is important that the
	// decompressor won't consume gigabytes of memory. The need
	// for limiting depends on the application. In this example,
	// no memory usage limiting is used. This is done by setting
	// the limit to UINT64_MAX.
	//
	// The .xz format allows concatenating compressed files as is:
	//
	//     echo foo | xz > foobar.xz
	//     echo bar | xz >> foobar.xz
	//
	// When decompressing normal standalone .xz files, LZMA_CONCATENATED
	// should always be used to support decompression of concatenated
	// .xz files. If LZMA_CONCATENATED isn't used, the decoder will stop
	// after the first .xz stream. This can be useful when .xz data has
	// been embedded inside another file format.
	//
	// Flags other than LZMA_CONCATENATED are supported too, and can
	// be combined with bitwise-or. See lzma/container.h
	// (src/liblzma/api/lzma/container.h in the source package or e.g.
	// /usr/include/lzma/container.h depending on the install prefix)
	// for details.
	lzma_ret ret = lzma_stream_decoder(
			strm, UINT64_MAX, LZMA_CONCATENATED);

	// Return successfully if the initialization went fine.
	if (ret == LZMA_OK)
		return true;

	// Something went wrong. The possible errors are documented in
	// lzma/container.h (src/liblzma/api/lzma/container.h in the source
	// package or e.g. /usr/include/lzma/container.h depending on the
	// install prefix).
	//
	// Note that LZMA_MEMLIMIT_ERROR is never possible here. If you
	// specify a very tiny limit, the error will be delayed until
	// the first headers have been parsed by a call to lzma_code().
	const char *msg;
	switch (ret) {
	case LZMA_MEM_ERROR:
		msg = "Memory allocation failed";
		break;

	case LZMA_OPTIONS_ERROR:
		msg = "Unsupported decompressor flags";
		break;

	default:
		// This is most likely LZMA_PROG_ERROR indicating a bug in
		// this program or in liblzma. It is inconvenient to have a
		// separate error message for errors that should be impossible
		// to occur, but knowing the error code is important for
		// debugging. That's why it is good to print the error code
		// at least when there is no good error message to show.
		msg = "Unknown error, possibly a bug";
		break;
	}

	fprintf(stderr, "Error initializing the decoder: %s (error code %u)\n",
			msg, ret);
	return false;
}


static bool
decompress(lzma_stream *strm, const char *inname, FILE *infile, FILE *outfile)
{
	// When LZMA_CONCATENATED flag was used when initializing the decoder,
	// we need to tell lzma_code() when there will be no more input.
	// This is done by setting action to LZMA_FINISH instead of LZMA_RUN
	// in the same way as it is done when encoding.
	//
	// When LZMA_CONCATENATED isn't used, there is no need to use
	// LZMA_FINISH to tell when all the input has been read, but it
	// is still OK to use it if you want. When LZMA_CONCATENATED isn't
	// used, the decoder will stop after the first .xz stream. In that
	// case some unused data may be left in strm->next_in.
	lzma_action action = LZMA_RUN;

	uint8_t inbuf[BUFSIZ];
	uint8_t outbuf[BUFSIZ];

	strm->next_in = NULL;
	strm->avail_in = 0;
	strm->next_out = outbuf;
	strm->avail_out = sizeof(outbuf);

	while (true) {
		if (strm->avail_in == 0 && !feof(infile)) {
			strm->next_in = inbuf;
			strm->avail_in = fread(inbuf, 1, sizeof(inbuf),
					infile);

			if (ferror(infile)) {
				fprintf(stderr, "%s: Read error: %s\n",
						inname, strerror(errno));
				return false;
			}

			// Once the end of the input file has been reached,
			// we need to tell lzma_code() that no more input
			// will be coming. As said before, this isn't required
			// if the LZMA_CONCATENATED flag isn't used when
			// initializing the decoder.
			if (feof(infile))
				action = LZMA_FINISH;
		}

		lzma_ret ret = lzma_code(strm, action);

		if (strm->avail_out == 0 || ret == LZMA_STREAM_END) {
			size_t write_size = sizeof(outbuf) - strm->avail_out;

			if (fwrite(outbuf, 1, write_size, outfile)
					!= write_size) {
				fprintf(stderr, "Write error: %s\n",
						strerror(errno));
				return false;
			}

			strm->next_out = outbuf;
			strm->avail_out = sizeof(outbuf);
		}

		if (ret != LZMA_OK) {
			// Once everything has been decoded successfully, the
			// return value of lzma_code() will be LZMA_STREAM_END.
			//
			// It is important to check for LZMA_STREAM_END. Do not
			// assume that getting ret != LZMA_OK would mean that
			// everything has gone well or that when you aren't
			// getting more output it must have successfully
			// decoded everything.
			if (ret == LZMA_STREAM_END)
				return true;

			// It's not LZMA_OK nor LZMA_STREAM_END,
			// so it must be an error code. See lzma/base.h
			// (src/liblzma/api/lzma/base.h in the source package
			// or e.g. /usr/include/lzma/base.h depending on the
			// install prefix) for the list and documentation of
			// possible values. Many values listen in lzma_ret
			// enumeration aren't possible in this example, but
			// can be made possible by enabling memory usage limit
			// or adding flags to the decoder initialization.
			const char *msg;
			switch (ret) {
			case LZMA_MEM_ERROR:
				msg = "Memory allocation failed";
				break;

			case LZMA_FORMAT_ERROR:
				// .xz magic bytes weren't found.
				msg = "The input is not in the .xz format";
				break;

			case LZMA_OPTIONS_ERROR:
				// For example, the headers specify a filter
				// that isn't supported by this liblzma
				// version (or it hasn't been enabled when
				// building liblzma, but no-one sane does
				// that unless building liblzma for an
				// embedded system). Upgrading to a newer
				// liblzma might help.
				//
				// Note that it is unlikely that the file has
				// accidentally became corrupt if you get this
				// error. The integrity of the .xz headers is
				// always verified with a CRC32, so
				// unintentionally corrupt files can be
				// distinguished from unsupported files.
				msg = "Unsupported compression options";
				break;

			case LZMA_DATA_ERROR:
				msg = "Compressed file is corrupt";
				break;

			case LZMA_BUF_ERROR:
				// Typically this error means that a valid
				// file has got truncated, but it might also
				// be a damaged part in the file that makes
				// the decoder think the file is truncated.
				// If you prefer, you can use the same error
				// message for this as for LZMA_DATA_ERROR.
				msg = "Compressed file is truncated or "
						"otherwise corrupt";
				break;

			default:
				// This is most likely LZMA_PROG_ERROR.
				msg = "Unknown error, possibly a bug";
				break;
			}

			fprintf(stderr, "%s: Decoder error: "
					"%s (error code %u)\n",
					inname, msg, ret);
			return false;
		}
	}
}


extern int
main(int argc, char **argv)
{
	if (argc <= 1) {
		fprintf(stderr, "Usage: %s FILES...\n", argv[0]);
		return EXIT_FAILURE;
	}

	lzma_stream strm = LZMA_STREAM_INIT;

	bool success = true;

	// Try to decompress all files.
	for (int i = 1; i < argc; ++i) {
		if (!init_decoder(&strm)) {
			// Decoder initialization failed. There's no point
			// to retry it so we need to exit.
			success = false;
			break;
		}

		FILE *infile = fopen(argv[i], "rb");

		if (infile == NULL) {
			fprintf(stderr, "%s: Error opening the "
					"input file: %s\n",
					argv[i], strerror(errno));
			success = false;
		} else {
			success &= decompress(&strm, argv[i], infile, stdout);
			fclose(infile);
		}
	}

	// Free the memory allocated for the decoder. This only needs to be
	// done after the last file.
	lzma_end(&strm);

	if (fclose(stdout)) {
		fprintf(stderr, "Write error: %s\n", strerror(errno));
		success = false;
	}

	return success ? EXIT_SUCCESS : EXIT_FAILURE;
}
