/* Area:	ffi_call, closure_call
   Purpose:	Check structure passing with different structure size.
		Depending on the ABI. Check overlapping.
   Limitations:	none.
   PR:		none.
   Originator:	<andreast@gcc.gnu.org> 20030828	 */

/* { dg-do run } */
#include "ffitest.h"

typedef struct cls_struct_16byte {
  int a;
  double b;
  int c;
} cls_struct_16byte;

cls_struct_16byte cls_struct_16byte_fn(struct cls_struct_16byte b1,
			    struct cls_struct_16byte b2)
{
  struct cls_struct_16byte result;

  result.a = b1.a + b2.a;
  result.b = b1.b + b2.b;
  result.c = b1.c + b2.c;

  printf("%d %g %d %d %g %d: %d %g %d\n", b1.a, b1.b, b1.c, b2.a, b2.b, b2.c,
	 result.a, result.b, result.c);

  CHECK(b1.a == 7);
  CHECK(b1.b == 8);
  CHECK(b1.c == 9);

  CHECK(b2.a == 1);
  CHECK(b2.b == 9);
  CHECK(b2.c == 3);

  CHECK(result.a == 8);
  CHECK(result.b == 17);
  CHECK(result.c == 12);


  return result;
}

static void cls_struct_16byte_gn(ffi_cif* cif __UNUSED__, void* resp,
				 void** args, void* userdata __UNUSED__)
{
  struct cls_struct_16byte b1, b2;

  b1 = *(struct cls_struct_16byte*)(args[0]);
  b2 = *(struct cls_struct_16byte*)(args[1]);

  *(cls_struct_16byte*)resp = cls_struct_16byte_fn(b1, b2);
}

int main (void)
{
  ffi_cif cif;
  void *code;
  ffi_closure *pcl = ffi_closure_alloc(sizeof(ffi_closure), &code);
  void* args_dbl[5];
  ffi_type* cls_struct_fields[4];
  ffi_type cls_struct_type;
  ffi_type* dbl_arg_types[5];

  struct cls_struct_16byte h_dbl = { 7, 8.0, 9 };
  struct cls_struct_16byte j_dbl = { 1, 9.0, 3 };
  struct cls_struct_16byte res_dbl;

  cls_struct_type.size = 0;
  cls_struct_type.alignment = 0;
  cls_struct_type.type = FFI_TYPE_STRUCT;
  cls_struct_type.elements = cls_struct_fields;

  cls_struct_fields[0] = &ffi_type_sint;
  cls_struct_fields[1] = &ffi_type_double;
  cls_struct_fields[2] = &ffi_type_sint;
  cls_struct_fields[3] = NULL;

  dbl_arg_types[0] = &cls_struct_type;
  dbl_arg_types[1] = &cls_struct_type;
  dbl_arg_types[2] = NULL;

  CHECK(ffi_prep_cif(&cif, FFI_DEFAULT_ABI, 2, &cls_struct_type,
		     dbl_arg_types) == FFI_OK);

  args_dbl[0] = &h_dbl;
  args_dbl[1] = &j_dbl;
  args_dbl[2] = NULL;

  ffi_call(&cif, FFI_FN(cls_struct_16byte_fn), &res_dbl, args_dbl);
  /* { dg-output "7 8 9 1 9 3: 8 17 12" } */
  printf("res: %d %g %d\n", res_dbl.a, res_dbl.b, res_dbl.c);
  /* { dg-output "\nres: 8 17 12" } */

  CHECK(res_dbl.a == 8);
  CHECK(res_dbl.b == 17);
  CHECK(res_dbl.c == 12);

  res_dbl.a = 0;
  res_dbl.b = 0.0;
  res_dbl.c = 0;

  CHECK(ffi_prep_closure_loc(pcl, &cif, cls_struct_16byte_gn, NULL, code) == FFI_OK);

  res_dbl = ((cls_struct_16byte(*)(cls_struct_16byte, cls_struct_16byte))(code))(h_dbl, j_dbl);
  /* { dg-output "\n7 8 9 1 9 3: 8 17 12" } */
  printf("res: %d %g %d\n", res_dbl.a, res_dbl.b, res_dbl.c);
  /* { dg-output "\nres: 8 17 12" } */

  CHECK(res_dbl.a == 8);
  CHECK(res_dbl.b == 17);
  CHECK(res_dbl.c == 12);


  exit(0);
}
