// SPDX-License-Identifier: 0BSD

///////////////////////////////////////////////////////////////////////////////
//
/// \file       04_compress_easy_mt.c
/// \brief      Compress in multi-call mode using LZMA2 in multi-threaded mode
///
/// Usage:      ./04_compress_easy_mt < INFILE > OUTFILE
///
/// Example:    ./04_compress_easy_mt < foo > foo.xz
//
//  Author:     Lasse Collin
//
///////////////////////////////////////////////////////////////////////////////

#include <stdbool.h>
#include <stdlib.h>
#include <stdio.h>
#include <string.h>
#include <errno.h>
#include <lzma.h>


static bool
init_encoder(lzma_stream *strm)
{
	// The threaded encoder takes the options as pointer to
	// a lzma_mt structure.
	lzma_mt mt = {
		// No flags are needed.
		.flags = 0,

		// Let liblzma determine a sane block size.
		.block_size = 0,

		// Use no timeout for lzma_code() calls by setting timeout
		// to zero. That is, sometimes lzma_code() might block for
		// a long time (from several seconds to even minutes).
		// If this is not OK, for example due to progress indicator
		// needing updates, specify a timeout in milliseconds here.
		// See the documentation of lzma_mt in lzma/container.h for
		// information how to choose a reasonable timeout.
		.timeout = 0,

		// Use the default preset (6) for LZMA2.
		// To use a preset, filters must be set to NULL.
		.preset = LZMA_PRESET_DEFAULT,
		.filters = NULL,

		// Use CRC64 for integrity checking. See also
		// 01_compress_easy.c about choosing the integrity check.
		.check = LZMA_CHECK_CRC64,
	};

	// Detect how many threads the CPU supports.
	mt.threads = lzma_cputhreads();

	// If the number of CPU cores/threads cannot be detected,
	// use one thread. Note that this isn't the same as the normal
	// single-threaded mode as this will still split the data into
	// blocks and use more RAM than the normal single-threaded mode.
	// You may want to consider using lzma_easy_encoder() or
	// lzma_stream_encoder() instead of lzma_stream_encoder_mt() if
	// lzma_cputhreads() returns 0 or 1.
	if (mt.threads == 0)
		mt.threads = 1;

	// If the number of CPU cores/threads exceeds threads_max,
	// limit the number of threads to keep memory usage lower.
	// The number 8 is arbitrarily chosen and may be too low or
	// high depending on the compression preset and the computer
	// being used.
	//
	// FIXME: A better way could be to check the amount of RAM
	// (or available RAM) and use lzma_stream_encoder_mt_memusage()
	// to determine if the number of threads should be reduced.
	const uint32_t threads_max = 8;
	if (mt.threads > threads_max)
		mt.threads = threads_max;

	// Initialize the threaded encoder.
	lzma_ret ret = lzma_stream_encoder_mt(strm, &mt);

	if (ret == LZMA_OK)
		return true;

	const char *msg;
	switch (ret) {
	case LZMA_MEM_ERROR:
		msg = "Memory allocation failed";
		break;

	case LZMA_OPTIONS_ERROR:
		// We are no longer using a plain preset so this error
		// message has been edited accordingly compared to
		// 01_compress_easy.c.
		msg = "Specified filter chain is not supported";
		break;

	case LZMA_UNSUPPORTED_CHECK:
		msg = "Specified integrity check is not supported";
		break;

	default:
		msg = "Unknown error, possibly a bug";
		break;
	}

	fprintf(stderr, "Error initializing the encoder: %s (error code %u)\n",
			msg, ret);
	return false;
}


// This function is identical to the one in 01_compress_easy.c.
static bool
compress(lzma_stream *strm, FILE *infile, FILE *outfile)
{
	lzma_action action = LZMA_RUN;

	uint8_t inbuf[BUFSIZ];
	uint8_t outbuf[BUFSIZ];

	strm->next_in = NULL;
	strm->avail_in = 0;
	strm->next_out = outbuf;
	strm->avail_out = sizeof(outbuf);

	while (true) {
		if (strm->avail_in == 0 && !feof(infile)) {
			strm->next_in = inbuf;
			strm->avail_in = fread(inbuf, 1, sizeof(inbuf),
					infile);

			if (ferror(infile)) {
				fprintf(stderr, "Read error: %s\n",
						strerror(errno));
				return false;
			}

			if (feof(infile))
				action = LZMA_FINISH;
		}

		lzma_ret ret = lzma_code(strm, action);

		if (strm->avail_out == 0 || ret == LZMA_STREAM_END) {
			size_t write_size = sizeof(outbuf) - strm->avail_out;

			if (fwrite(outbuf, 1, write_size, outfile)
					!= write_size) {
				fprintf(stderr, "Write error: %s\n",
						strerror(errno));
				return false;
			}

			strm->next_out = outbuf;
			strm->avail_out = sizeof(outbuf);
		}

		if (ret != LZMA_OK) {
			if (ret == LZMA_STREAM_END)
				return true;

			const char *msg;
			switch (ret) {
			case LZMA_MEM_ERROR:
				msg = "Memory allocation failed";
				break;

			case LZMA_DATA_ERROR:
				msg = "File size limits exceeded";
				break;

			default:
				msg = "Unknown error, possibly a bug";
				break;
			}

			fprintf(stderr, "Encoder error: %s (error code %u)\n",
					msg, ret);
			return false;
		}
	}
}


extern int
main(void)
{
	lzma_stream strm = LZMA_STREAM_INIT;

	bool success = init_encoder(&strm);
	if (success)
		success = compress(&strm, stdin, stdout);

	lzma_end(&strm);

	if (fclose(stdout)) {
		fprintf(stderr, "Write error: %s\n", strerror(errno));
		success = false;
	}

	return success ? EXIT_SUCCESS : EXIT_FAILURE;
}
