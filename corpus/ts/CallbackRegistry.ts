/**
 * @license
 * Copyright 2023 Google Inc.
 * SPDX-License-Identifier: Apache-2.0
 */

import {Deferred} from '../util/Deferred.js';
import {rewriteError} from '../util/ErrorLike.js';
import type {GetIdFn} from '../util/incremental-id-generator.js';

import {ProtocolError, TargetCloseError} from './Errors.js';
import {debugError} from './util.js';

/**
 * Manages callbacks and their IDs for the protocol request/response communication.
 *
 * @internal
 */
export class CallbackRegistry {
  readonly #callbacks = new Map<number, Callback>();
  readonly #idGenerator: GetIdFn;

  constructor(idGenerator: GetIdFn) {
    this.#idGenerator = idGenerator;
  }

  create(
    label: string,
    timeout: number | undefined,
    request: (id: number) => void,
  ): Promise<unknown> {
    const callback = new Callback(this.#idGenerator(), label, timeout);
    this.#callbacks.set(callback.id, callback);
    try {
      request(callback.id);
    } catch (error) {
      // We still throw sync errors synchronously and clean up the scheduled
      // callback.
      callback.promise.catch(debugError).finally(() => {
        this.#callbacks.delete(callback.id);
      });
      callback.reject(error as Error);
      throw error;
    }
    // Must only have sync code up until here.
    return callback.promise.finally(() => {
      this.#callbacks.delete(callback.id);
    });
  }

  reject(id: number, message: string, originalMessage?: string): void {
    const callback = this.#callbacks.get(id);
    if (!callback) {
      return;
    }
    this._reject(callback, message, originalMessage);
  }

  rejectRaw(id: number, error: object): void {
    const callback = this.#callbacks.get(id);
    if (!callback) {
      return;
    }
    callback.reject(error as any);
  }

  _reject(
    callback: Callback,
    errorMessage: string | ProtocolError,
    originalMessage?: string,
  ): void {
    let error: ProtocolError;
    let message: string;
    if (errorMessage instanceof ProtocolError) {
      error = errorMessage;
      error.cause = callback.error;
      message = errorMessage.message;
    } else {
      error = callback.error;
      message = errorMessage;
    }

    callback.reject(
      rewriteError(
        error,
        `Protocol error (${callback.label}): ${message}`,
        originalMessage,
      ),
    );
  }

  resolve(id: number, value: unknown): void {
    const callback = this.#callbacks.get(id);
    if (!callback) {
      return;
    }
    callback.resolve(value);
  }

  clear(): void {
    for (const callback of this.#callbacks.values()) {
      // TODO: probably we can accept error messages as params.
      this._reject(callback, new TargetCloseError('Target closed'));
    }
    this.#callbacks.clear();
  }

  /**
   * @internal
   */
  getPendingProtocolErrors(): Error[] {
    const result: Error[] = [];
    for (const callback of this.#callbacks.values()) {
      result.push(
        new Error(
          `${callback.label} timed out. Trace: ${callback.error.stack}`,
        ),
      );
    }
    return result;
  }
}
/**
 * @internal
 */

export class Callback {
  #id: number;
  #error = new ProtocolError();
  #deferred = Deferred.create<unknown>();
  #timer?: ReturnType<typeof setTimeout>;
  #label: string;

  constructor(id: number, label: string, timeout?: number) {
    this.#id = id;
    this.#label = label;
    if (timeout) {
      this.#timer = setTimeout(() => {
        this.#deferred.reject(
          rewriteError(
            this.#error,
            `${label} timed out. Increase the 'protocolTimeout' setting in launch/connect calls for a higher timeout if needed.`,
          ),
        );
      }, timeout);
    }
  }

  resolve(value: unknown): void {
    clearTimeout(this.#timer);
    this.#deferred.resolve(value);
  }

  reject(error: Error): void {
    clearTimeout(this.#timer);
    this.#deferred.reject(error);
  }

  get id(): number {
    return this.#id;
  }

  get promise(): Promise<unknown> {
    return this.#deferred.valueOrThrow();
  }

  get error(): ProtocolError {
    return this.#error;
  }

  get label(): string {
    return this.#label;
  }
}
