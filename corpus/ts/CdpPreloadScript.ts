/**
 * @license
 * Copyright 2024 Google Inc.
 * SPDX-License-Identifier: Apache-2.0
 */

import type {CdpFrame} from './Frame.js';

/**
 * @internal
 */
export class CdpPreloadScript {
  /**
   * This is the ID of the preload script returned by
   * Page.addScriptToEvaluateOnNewDocument in the main frame.
   *
   * Sub-frames would get a different CDP ID because
   * addScriptToEvaluateOnNewDocument is called for each subframe. But
   * users only see this ID and subframe IDs are internal to Puppeteer.
   */
  #id: string;
  #source: string;
  #frameToId = new WeakMap<CdpFrame, string>();

  constructor(mainFrame: CdpFrame, id: string, source: string) {
    this.#id = id;
    this.#source = source;
    this.#frameToId.set(mainFrame, id);
  }

  get id(): string {
    return this.#id;
  }

  get source(): string {
    return this.#source;
  }

  getIdForFrame(frame: CdpFrame): string | undefined {
    return this.#frameToId.get(frame);
  }

  setIdForFrame(frame: CdpFrame, identifier: string): void {
    this.#frameToId.set(frame, identifier);
  }
}
