/**
 * @license
 * Copyright 2024 Google Inc.
 * SPDX-License-Identifier: Apache-2.0
 */

import type {Protocol} from 'devtools-protocol';

import type {CreatePageOptions} from '../api/Browser.js';
import {
  WEB_PERMISSION_TO_PROTOCOL_PERMISSION,
  type Permission,
  type PermissionDescriptor,
  type PermissionState,
} from '../api/Browser.js';
import {BrowserContext} from '../api/BrowserContext.js';
import type {Page} from '../api/Page.js';
import type {Cookie, CookieData} from '../common/Cookie.js';
import type {DownloadBehavior} from '../common/DownloadBehavior.js';
import {assert} from '../util/assert.js';

import type {CdpBrowser} from './Browser.js';
import type {Connection} from './Connection.js';
import {
  convertCookiesPartitionKeyFromPuppeteerToCdp,
  convertSameSiteFromPuppeteerToCdp,
} from './Page.js';
import type {CdpTarget} from './Target.js';

/**
 * @internal
 */
export class CdpBrowserContext extends BrowserContext {
  #connection: Connection;
  #browser: CdpBrowser;
  #id?: string;

  constructor(connection: Connection, browser: CdpBrowser, contextId?: string) {
    super();
    this.#connection = connection;
    this.#browser = browser;
    this.#id = contextId;
  }

  override get id(): string | undefined {
    return this.#id;
  }

  override targets(): CdpTarget[] {
    return this.#browser.targets().filter(target => {
      return target.browserContext() === this;
    });
  }

  override async pages(includeAll = false): Promise<Page[]> {
    const pages = await Promise.all(
      this.targets()
        .filter(target => {
          return (
            target.type() === 'page' ||
            ((target.type() === 'other' || includeAll) &&
              this.#browser._getIsPageTargetCallback()?.(target))
          );
        })
        .map(target => {
          return target.page();
        }),
    );
    return pages.filter((page): page is Page => {
      return !!page;
    });
  }

  override async overridePermissions(
    origin: string,
    permissions: Permission[],
  ): Promise<void> {
    const protocolPermissions = permissions.map(permission => {
      const protocolPermission =
        WEB_PERMISSION_TO_PROTOCOL_PERMISSION.get(permission);
      if (!protocolPermission) {
        throw new Error('Unknown permission: ' + permission);
      }
      return protocolPermission;
    });
    await this.#connection.send('Browser.grantPermissions', {
      origin,
      browserContextId: this.#id || undefined,
      permissions: protocolPermissions,
    });
  }

  override async setPermission(
    origin: string | '*',
    ...permissions: Array<{
      permission: PermissionDescriptor;
      state: PermissionState;
    }>
  ): Promise<void> {
    await Promise.all(
      permissions.map(async permission => {
        const protocolPermission: Protocol.Browser.PermissionDescriptor = {
          name: permission.permission.name,
          userVisibleOnly: permission.permission.userVisibleOnly,
          sysex: permission.permission.sysex,
          allowWithoutSanitization:
            permission.permission.allowWithoutSanitization,
          panTiltZoom: permission.permission.panTiltZoom,
        };
        await this.#connection.send('Browser.setPermission', {
          origin: origin === '*' ? undefined : origin,
          browserContextId: this.#id || undefined,
          permission: protocolPermission,
          setting: permission.state as Protocol.Browser.PermissionSetting,
        });
      }),
    );
  }

  override async clearPermissionOverrides(): Promise<void> {
    await this.#connection.send('Browser.resetPermissions', {
      browserContextId: this.#id || undefined,
    });
  }

  override async newPage(options?: CreatePageOptions): Promise<Page> {
    using _guard = await this.waitForScreenshotOperations();
    return await this.#browser._createPageInContext(this.#id, options);
  }

  override browser(): CdpBrowser {
    return this.#browser;
  }

  override async close(): Promise<void> {
    assert(this.#id, 'Default BrowserContext cannot be closed!');
    await this.#browser._disposeContext(this.#id);
  }

  override async cookies(): Promise<Cookie[]> {
    const {cookies} = await this.#connection.send('Storage.getCookies', {
      browserContextId: this.#id,
    });
    return cookies.map(cookie => {
      return {
        ...cookie,
        partitionKey: cookie.partitionKey
          ? {
              sourceOrigin: cookie.partitionKey.topLevelSite,
              hasCrossSiteAncestor: cookie.partitionKey.hasCrossSiteAncestor,
            }
          : undefined,
        // TODO: remove sameParty as it is removed from Chrome.
        sameParty: false,
      };
    });
  }

  override async setCookie(...cookies: CookieData[]): Promise<void> {
    return await this.#connection.send('Storage.setCookies', {
      browserContextId: this.#id,
      cookies: cookies.map(cookie => {
        return {
          ...cookie,
          partitionKey: convertCookiesPartitionKeyFromPuppeteerToCdp(
            cookie.partitionKey,
          ),
          sameSite: convertSameSiteFromPuppeteerToCdp(cookie.sameSite),
        };
      }),
    });
  }

  public async setDownloadBehavior(
    downloadBehavior: DownloadBehavior,
  ): Promise<void> {
    await this.#connection.send('Browser.setDownloadBehavior', {
      behavior: downloadBehavior.policy,
      downloadPath: downloadBehavior.downloadPath,
      browserContextId: this.#id,
    });
  }
}
