/**
 * @license
 * Copyright 2025 Google Inc.
 * SPDX-License-Identifier: Apache-2.0
 */
import type {
  AdapterState,
  BluetoothEmulation,
  PreconnectedPeripheral,
} from '../api/BluetoothEmulation.js';

import type {Connection} from './Connection.js';

/**
 * @internal
 */
export class CdpBluetoothEmulation implements BluetoothEmulation {
  #connection: Connection;

  constructor(connection: Connection) {
    this.#connection = connection;
  }

  async emulateAdapter(state: AdapterState, leSupported = true): Promise<void> {
    // Bluetooth spec requires overriding the existing adapter (step 6). From the CDP
    // perspective, it means disabling the emulation first.
    // https://webbluetoothcg.github.io/web-bluetooth/#bluetooth-simulateAdapter-command
    await this.#connection.send('BluetoothEmulation.disable');
    await this.#connection.send('BluetoothEmulation.enable', {
      state,
      leSupported,
    });
  }

  async disableEmulation(): Promise<void> {
    await this.#connection.send('BluetoothEmulation.disable');
  }

  async simulatePreconnectedPeripheral(
    preconnectedPeripheral: PreconnectedPeripheral,
  ): Promise<void> {
    await this.#connection.send(
      'BluetoothEmulation.simulatePreconnectedPeripheral',
      preconnectedPeripheral,
    );
  }
}
