/**
 * @license
 * Copyright 2020 Google Inc.
 * SPDX-License-Identifier: Apache-2.0
 */
import type {ConnectionTransport} from './ConnectionTransport.js';

/**
 * @internal
 */
export class BrowserWebSocketTransport implements ConnectionTransport {
  static create(url: string): Promise<BrowserWebSocketTransport> {
    return new Promise((resolve, reject) => {
      const ws = new WebSocket(url);

      ws.addEventListener('open', () => {
        return resolve(new BrowserWebSocketTransport(ws));
      });
      ws.addEventListener('error', reject);
    });
  }

  #ws: WebSocket;
  onmessage?: (message: string) => void;
  onclose?: () => void;

  constructor(ws: WebSocket) {
    this.#ws = ws;
    this.#ws.addEventListener('message', event => {
      if (this.onmessage) {
        this.onmessage.call(null, event.data);
      }
    });
    this.#ws.addEventListener('close', () => {
      if (this.onclose) {
        this.onclose.call(null);
      }
    });
    // Silently ignore all errors - we don't know what to do with them.
    this.#ws.addEventListener('error', () => {});
  }

  send(message: string): void {
    this.#ws.send(message);
  }

  close(): void {
    this.#ws.close();
  }
}
