/**
 * @license
 * Copyright 2017 Google Inc.
 * SPDX-License-Identifier: Apache-2.0
 */

import type {ProtocolMapping} from 'devtools-protocol/types/protocol-mapping.js';

import {
  type CDPEvents,
  CDPSession,
  CDPSessionEvent,
  type CommandOptions,
} from '../api/CDPSession.js';
import {CallbackRegistry} from '../common/CallbackRegistry.js';
import {TargetCloseError} from '../common/Errors.js';
import {assert} from '../util/assert.js';
import {createProtocolErrorMessage} from '../util/ErrorLike.js';

import type {Connection} from './Connection.js';
import type {CdpTarget} from './Target.js';

/**
 * @internal
 */

export class CdpCDPSession extends CDPSession {
  #sessionId: string;
  #targetType: string;
  #callbacks: CallbackRegistry;
  #connection: Connection;
  #parentSessionId?: string;
  #target?: CdpTarget;
  #rawErrors = false;
  #detached = false;
  /**
   * @internal
   */
  constructor(
    connection: Connection,
    targetType: string,
    sessionId: string,
    parentSessionId: string | undefined,
    rawErrors: boolean,
  ) {
    super();
    this.#connection = connection;
    this.#targetType = targetType;
    this.#callbacks = new CallbackRegistry(connection._idGenerator);
    this.#sessionId = sessionId;
    this.#parentSessionId = parentSessionId;
    this.#rawErrors = rawErrors;
  }

  /**
   * Sets the {@link CdpTarget} associated with the session instance.
   *
   * @internal
   */
  setTarget(target: CdpTarget): void {
    this.#target = target;
  }

  /**
   * Gets the {@link CdpTarget} associated with the session instance.
   *
   * @internal
   */
  target(): CdpTarget {
    assert(this.#target, 'Target must exist');
    return this.#target;
  }

  override connection(): Connection {
    return this.#connection;
  }

  override get detached(): boolean {
    return this.#connection._closed || this.#detached;
  }

  override parentSession(): CDPSession | undefined {
    if (!this.#parentSessionId) {
      // In some cases, e.g., DevTools pages there is no parent session. In this
      // case, we treat the current session as the parent session.
      return this;
    }
    const parent = this.#connection?.session(this.#parentSessionId);
    return parent ?? undefined;
  }

  override send<T extends keyof ProtocolMapping.Commands>(
    method: T,
    params?: ProtocolMapping.Commands[T]['paramsType'][0],
    options?: CommandOptions,
  ): Promise<ProtocolMapping.Commands[T]['returnType']> {
    if (this.detached) {
      return Promise.reject(
        new TargetCloseError(
          `Protocol error (${method}): Session closed. Most likely the ${this.#targetType} has been closed.`,
        ),
      );
    }
    return this.#connection._rawSend(
      this.#callbacks,
      method,
      params,
      this.#sessionId,
      options,
    );
  }

  /**
   * @internal
   */
  onMessage(object: {
    id?: number;
    method: keyof CDPEvents;
    params: CDPEvents[keyof CDPEvents];
    error: {message: string; data: any; code: number};
    result?: any;
  }): void {
    if (object.id) {
      if (object.error) {
        if (this.#rawErrors) {
          this.#callbacks.rejectRaw(object.id, object.error);
        } else {
          this.#callbacks.reject(
            object.id,
            createProtocolErrorMessage(object),
            object.error.message,
          );
        }
      } else {
        this.#callbacks.resolve(object.id, object.result);
      }
    } else {
      assert(!object.id);
      this.emit(object.method, object.params);
    }
  }

  /**
   * Detaches the cdpSession from the target. Once detached, the cdpSession object
   * won't emit any events and can't be used to send messages.
   */
  override async detach(): Promise<void> {
    if (this.detached) {
      throw new Error(
        `Session already detached. Most likely the ${this.#targetType} has been closed.`,
      );
    }
    await this.#connection.send('Target.detachFromTarget', {
      sessionId: this.#sessionId,
    });
    this.#detached = true;
  }

  /**
   * @internal
   */
  onClosed(): void {
    this.#callbacks.clear();
    this.#detached = true;
    this.emit(CDPSessionEvent.Disconnected, undefined);
  }

  /**
   * Returns the session's id.
   */
  override id(): string {
    return this.#sessionId;
  }

  /**
   * @internal
   */
  getPendingProtocolErrors(): Error[] {
    return this.#callbacks.getPendingProtocolErrors();
  }
}
