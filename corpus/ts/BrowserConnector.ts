/**
 * @license
 * Copyright 2023 Google Inc.
 * SPDX-License-Identifier: Apache-2.0
 */

import type {Browser} from '../api/Browser.js';
import {_connectToBiDiBrowser} from '../bidi/BrowserConnector.js';
import {_connectToCdpBrowser} from '../cdp/BrowserConnector.js';
import {environment, isNode} from '../environment.js';
import {assert} from '../util/assert.js';
import {isErrorLike} from '../util/ErrorLike.js';

import type {ConnectionTransport} from './ConnectionTransport.js';
import type {ConnectOptions} from './ConnectOptions.js';

const getWebSocketTransportClass = async () => {
  return isNode
    ? (await import('../node/NodeWebSocketTransport.js')).NodeWebSocketTransport
    : (await import('../common/BrowserWebSocketTransport.js'))
        .BrowserWebSocketTransport;
};

/**
 * Users should never call this directly; it's called when calling
 * `puppeteer.connect`. This method attaches Puppeteer to an existing browser instance.
 *
 * @internal
 */
export async function _connectToBrowser(
  options: ConnectOptions,
): Promise<Browser> {
  const {connectionTransport, endpointUrl} =
    await getConnectionTransport(options);

  if (options.protocol === 'webDriverBiDi') {
    const bidiBrowser = await _connectToBiDiBrowser(
      connectionTransport,
      endpointUrl,
      options,
    );
    return bidiBrowser;
  } else {
    const cdpBrowser = await _connectToCdpBrowser(
      connectionTransport,
      endpointUrl,
      options,
    );
    return cdpBrowser;
  }
}

/**
 * Establishes a websocket connection by given options and returns both transport and
 * endpoint url the transport is connected to.
 */
async function getConnectionTransport(
  options: ConnectOptions,
): Promise<{connectionTransport: ConnectionTransport; endpointUrl: string}> {
  const {
    browserWSEndpoint,
    browserURL,
    channel,
    transport,
    headers = {},
  } = options;

  assert(
    Number(!!browserWSEndpoint) +
      Number(!!browserURL) +
      Number(!!transport) +
      Number(!!channel) ===
      1,
    'Exactly one of browserWSEndpoint, browserURL, transport or channel must be passed to puppeteer.connect',
  );

  if (transport) {
    return {connectionTransport: transport, endpointUrl: ''};
  } else if (browserWSEndpoint) {
    const WebSocketClass = await getWebSocketTransportClass();
    const connectionTransport: ConnectionTransport =
      await WebSocketClass.create(browserWSEndpoint, headers);
    return {
      connectionTransport: connectionTransport,
      endpointUrl: browserWSEndpoint,
    };
  } else if (browserURL) {
    const connectionURL = await getWSEndpoint(browserURL);
    const WebSocketClass = await getWebSocketTransportClass();
    const connectionTransport: ConnectionTransport =
      await WebSocketClass.create(connectionURL);
    return {
      connectionTransport: connectionTransport,
      endpointUrl: connectionURL,
    };
  } else if (options.channel && isNode) {
    const {detectBrowserPlatform, resolveDefaultUserDataDir, Browser} =
      await import('@puppeteer/browsers');
    const platform = detectBrowserPlatform();
    if (!platform) {
      throw new Error('Could not detect required browser platform');
    }
    const {convertPuppeteerChannelToBrowsersChannel} =
      await import('../node/LaunchOptions.js');
    const {join} = await import('node:path');
    const userDataDir = resolveDefaultUserDataDir(
      Browser.CHROME,
      platform,
      convertPuppeteerChannelToBrowsersChannel(options.channel),
    );
    const portPath = join(userDataDir, 'DevToolsActivePort');
    try {
      const fileContent = await environment.value.fs.promises.readFile(
        portPath,
        'ascii',
      );
      const [rawPort, rawPath] = fileContent
        .split('\n')
        .map(line => {
          return line.trim();
        })
        .filter(line => {
          return !!line;
        });
      if (!rawPort || !rawPath) {
        throw new Error(`Invalid DevToolsActivePort '${fileContent}' found`);
      }
      const port = parseInt(rawPort, 10);
      if (isNaN(port) || port <= 0 || port > 65535) {
        throw new Error(`Invalid port '${rawPort}' found`);
      }
      const browserWSEndpoint = `ws://localhost:${port}${rawPath}`;
      const WebSocketClass = await getWebSocketTransportClass();
      const connectionTransport = await WebSocketClass.create(
        browserWSEndpoint,
        headers,
      );
      return {
        connectionTransport: connectionTransport,
        endpointUrl: browserWSEndpoint,
      };
    } catch (error) {
      throw new Error(
        `Could not find DevToolsActivePort for ${options.channel} at ${portPath}`,
        {
          cause: error,
        },
      );
    }
  }
  throw new Error('Invalid connection options');
}

async function getWSEndpoint(browserURL: string): Promise<string> {
  const endpointURL = new URL('/json/version', browserURL);

  try {
    const result = await globalThis.fetch(endpointURL.toString(), {
      method: 'GET',
    });
    if (!result.ok) {
      throw new Error(`HTTP ${result.statusText}`);
    }
    const data = await result.json();
    return data.webSocketDebuggerUrl;
  } catch (error) {
    if (isErrorLike(error)) {
      error.message =
        `Failed to fetch browser webSocket URL from ${endpointURL}: ` +
        error.message;
    }
    throw error;
  }
}
