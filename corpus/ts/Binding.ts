/**
 * @license
 * Copyright 2024 Google Inc.
 * SPDX-License-Identifier: Apache-2.0
 */
import {JSHandle} from '../api/JSHandle.js';
import {debugError} from '../common/util.js';
import {DisposableStack} from '../util/disposable.js';
import {isErrorLike} from '../util/ErrorLike.js';

import type {ExecutionContext} from './ExecutionContext.js';

/**
 * @internal
 */
export class Binding {
  #name: string;
  #fn: (...args: unknown[]) => unknown;
  #initSource: string;
  constructor(
    name: string,
    fn: (...args: unknown[]) => unknown,
    initSource: string,
  ) {
    this.#name = name;
    this.#fn = fn;
    this.#initSource = initSource;
  }

  get name(): string {
    return this.#name;
  }

  get initSource(): string {
    return this.#initSource;
  }

  /**
   * @param context - Context to run the binding in; the context should have
   * the binding added to it beforehand.
   * @param id - ID of the call. This should come from the CDP
   * `onBindingCalled` response.
   * @param args - Plain arguments from CDP.
   */
  async run(
    context: ExecutionContext,
    id: number,
    args: unknown[],
    isTrivial: boolean,
  ): Promise<void> {
    const stack = new DisposableStack();
    try {
      if (!isTrivial) {
        // Getting non-trivial arguments.
        using handles = await context.evaluateHandle(
          (name, seq) => {
            // @ts-expect-error Code is evaluated in a different context.
            return globalThis[name].args.get(seq);
          },
          this.#name,
          id,
        );
        const properties = await handles.getProperties();
        for (const [index, handle] of properties) {
          // This is not straight-forward since some arguments can stringify, but
          // aren't plain objects so add subtypes when the use-case arises.
          if (index in args) {
            switch (handle.remoteObject().subtype) {
              case 'node':
                args[+index] = handle;
                break;
              default:
                stack.use(handle);
            }
          } else {
            stack.use(handle);
          }
        }
      }

      await context.evaluate(
        (name, seq, result) => {
          // @ts-expect-error Code is evaluated in a different context.
          const callbacks = globalThis[name].callbacks;
          callbacks.get(seq).resolve(result);
          callbacks.delete(seq);
        },
        this.#name,
        id,
        await this.#fn(...args),
      );

      for (const arg of args) {
        if (arg instanceof JSHandle) {
          stack.use(arg);
        }
      }
    } catch (error) {
      if (isErrorLike(error)) {
        await context
          .evaluate(
            (name, seq, message, stack) => {
              const error = new Error(message);
              error.stack = stack;
              // @ts-expect-error Code is evaluated in a different context.
              const callbacks = globalThis[name].callbacks;
              callbacks.get(seq).reject(error);
              callbacks.delete(seq);
            },
            this.#name,
            id,
            error.message,
            error.stack,
          )
          .catch(debugError);
      } else {
        await context
          .evaluate(
            (name, seq, error) => {
              // @ts-expect-error Code is evaluated in a different context.
              const callbacks = globalThis[name].callbacks;
              callbacks.get(seq).reject(error);
              callbacks.delete(seq);
            },
            this.#name,
            id,
            error,
          )
          .catch(debugError);
      }
    }
  }
}
