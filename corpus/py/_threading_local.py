"""Thread-local objects.

(Note that this module provides a Python version of the threading.local
 class.  Depending on the version of Python you're using, there may be a
 faster one available.  You should always import the `local` class from
 `threading`.)

Thread-local objects support the management of thread-local data.
If you have data that you want to be local to a thread, simply create
a thread-local object and use its attributes:

  >>> mydata = local()
  >>> mydata.number = 42
  >>> mydata.number
  42

You can also access the local-object's dictionary:

  >>> mydata.__dict__
  {'number': 42}
  >>> mydata.__dict__.setdefault('widgets', [])
  []
  >>> mydata.widgets
  []

What's important about thread-local objects is that their data are
local to a thread. If we access the data in a different thread:

  >>> log = []
  >>> def f():
  ...     items = sorted(mydata.__dict__.items())
  ...     log.append(items)
  ...     mydata.number = 11
  ...     log.append(mydata.number)

  >>> import threading
  >>> thread = threading.Thread(target=f)
  >>> thread.start()
  >>> thread.join()
  >>> log
  [[], 11]

we get different data.  Furthermore, changes made in the other thread
don't affect data seen in this thread:

  >>> mydata.number
  42

Of course, values you get from a local object, including a __dict__
attribute, are for whatever thread was current at the time the
attribute was read.  For that reason, you generally don't want to save
these values across threads, as they apply only to the thread they
came from.

You can create custom local objects by subclassing the local class:

  >>> class MyLocal(local):
  ...     number = 2
  ...     def __init__(self, /, **kw):
  ...         self.__dict__.update(kw)
  ...     def squared(self):
  ...         return self.number ** 2

This can be useful to support default values, methods and
initialization.  Note that if you define an __init__ method, it will be
called each time the local object is used in a separate thread.  This
is necessary to initialize each thread's dictionary.

Now if we create a local object:

  >>> mydata = MyLocal(color='red')

Now we have a default number:

  >>> mydata.number
  2

an initial color:

  >>> mydata.color
  'red'
  >>> del mydata.color

And a method that operates on the data:

  >>> mydata.squared()
  4

As before, we can access the data in a separate thread:

  >>> log = []
  >>> thread = threading.Thread(target=f)
  >>> thread.start()
  >>> thread.join()
  >>> log
  [[('color', 'red')], 11]

without affecting this thread's data:

  >>> mydata.number
  2
  >>> mydata.color
  Traceback (most recent call last):
  ...
  AttributeError: 'MyLocal' object has no attribute 'color'

Note that subclasses can define slots, but they are not thread
local. They are shared across threads:

  >>> class MyLocal(local):
  ...     __slots__ = 'number'

  >>> mydata = MyLocal()
  >>> mydata.number = 42
  >>> mydata.color = 'red'

So, the separate thread:

  >>> thread = threading.Thread(target=f)
  >>> thread.start()
  >>> thread.join()

affects what we see:

  >>> mydata.number
  11

>>> del mydata
"""

from weakref import ref
from contextlib import contextmanager

__all__ = ["local"]

# We need to use objects from the threading module, but the threading
# module may also want to use our `local` class, if support for locals
# isn't compiled in to the `thread` module.  This creates potential problems
# with circular imports.  For that reason, we don't import `threading`
# until the bottom of this file (a hack sufficient to worm around the
# potential problems).  Note that all platforms on CPython do have support
# for locals in the `thread` module, and there is no circular import problem
# then, so problems introduced by fiddling the order of imports here won't
# manifest.

class _localimpl:
    """A class managing thread-local dicts"""
    __slots__ = 'key', 'dicts', 'localargs', 'locallock', '__weakref__'

    def __init__(self):
        # The key used in the Thread objects' attribute dicts.
        # We keep it a string for speed but make it unlikely to clash with
        # a "real" attribute.
        self.key = '_threading_local._localimpl.' + str(id(self))
        # { id(Thread) -> (ref(Thread), thread-local dict) }
        self.dicts = {}

    def get_dict(self):
        """Return the dict for the current thread. Raises KeyError if none
        defined."""
        thread = current_thread()
        return self.dicts[id(thread)][1]

    def create_dict(self):
        """Create a new dict for the current thread, and return it."""
        localdict = {}
        key = self.key
        thread = current_thread()
        idt = id(thread)
        def local_deleted(_, key=key):
            # When the localimpl is deleted, remove the thread attribute.
            thread = wrthread()
            if thread is not None:
                del thread.__dict__[key]
        def thread_deleted(_, idt=idt):
            # When the thread is deleted, remove the local dict.
            # Note that this is suboptimal if the thread object gets
            # caught in a reference loop. We would like to be called
            # as soon as the OS-level thread ends instead.
            local = wrlocal()
            if local is not None:
                dct = local.dicts.pop(idt)
        wrlocal = ref(self, local_deleted)
        wrthread = ref(thread, thread_deleted)
        thread.__dict__[key] = wrlocal
        self.dicts[idt] = wrthread, localdict
        return localdict


@contextmanager
def _patch(self):
    impl = object.__getattribute__(self, '_local__impl')
    try:
        dct = impl.get_dict()
    except KeyError:
        dct = impl.create_dict()
        args, kw = impl.localargs
        self.__init__(*args, **kw)
    with impl.locallock:
        object.__setattr__(self, '__dict__', dct)
        yield


class local:
    __slots__ = '_local__impl', '__dict__'

    def __new__(cls, /, *args, **kw):
        if (args or kw) and (cls.__init__ is object.__init__):
            raise TypeError("Initialization arguments are not supported")
        self = object.__new__(cls)
        impl = _localimpl()
        impl.localargs = (args, kw)
        impl.locallock = RLock()
        object.__setattr__(self, '_local__impl', impl)
        # We need to create the thread dict in anticipation of
        # __init__ being called, to make sure we don't call it
        # again ourselves.
        impl.create_dict()
        return self

    def __getattribute__(self, name):
        with _patch(self):
            return object.__getattribute__(self, name)

    def __setattr__(self, name, value):
        if name == '__dict__':
            raise AttributeError(
                "%r object attribute '__dict__' is read-only"
                % self.__class__.__name__)
        with _patch(self):
            return object.__setattr__(self, name, value)

    def __delattr__(self, name):
        if name == '__dict__':
            raise AttributeError(
                "%r object attribute '__dict__' is read-only"
                % self.__class__.__name__)
        with _patch(self):
            return object.__delattr__(self, name)


from threading import current_thread, RLock
