"""
Basic subprocess implementation for POSIX which only uses os functions. Only
implement features required by setup.py to build C extension modules when
subprocess is unavailable. setup.py is not used on Windows.
"""
import os


# distutils.spawn used by distutils.command.build_ext
# calls subprocess.Popen().wait()
class Popen:
    def __init__(self, cmd, env=None):
        self._cmd = cmd
        self._env = env
        self.returncode = None

    def wait(self):
        pid = os.fork()
        if pid == 0:
            # Child process
            try:
                if self._env is not None:
                    os.execve(self._cmd[0], self._cmd, self._env)
                else:
                    os.execv(self._cmd[0], self._cmd)
            finally:
                os._exit(1)
        else:
            # Parent process
            _, status = os.waitpid(pid, 0)
            self.returncode = os.waitstatus_to_exitcode(status)

        return self.returncode


def _check_cmd(cmd):
    # Use regex [a-zA-Z0-9./-]+: reject empty string, space, etc.
    safe_chars = []
    for first, last in (("a", "z"), ("A", "Z"), ("0", "9")):
        for ch in range(ord(first), ord(last) + 1):
            safe_chars.append(chr(ch))
    safe_chars.append("./-")
    safe_chars = ''.join(safe_chars)

    if isinstance(cmd, (tuple, list)):
        check_strs = cmd
    elif isinstance(cmd, str):
        check_strs = [cmd]
    else:
        return False

    for arg in check_strs:
        if not isinstance(arg, str):
            return False
        if not arg:
            # reject empty string
            return False
        for ch in arg:
            if ch not in safe_chars:
                return False

    return True


# _aix_support used by distutil.util calls subprocess.check_output()
def check_output(cmd, **kwargs):
    if kwargs:
        raise NotImplementedError(repr(kwargs))

    if not _check_cmd(cmd):
        raise ValueError(f"unsupported command: {cmd!r}")

    tmp_filename = "check_output.tmp"
    if not isinstance(cmd, str):
        cmd = " ".join(cmd)
    cmd = f"{cmd} >{tmp_filename}"

    try:
        # system() spawns a shell
        status = os.system(cmd)
        exitcode = os.waitstatus_to_exitcode(status)
        if exitcode:
            raise ValueError(f"Command {cmd!r} returned non-zero "
                             f"exit status {exitcode!r}")

        try:
            with open(tmp_filename, "rb") as fp:
                stdout = fp.read()
        except FileNotFoundError:
            stdout = b''
    finally:
        try:
            os.unlink(tmp_filename)
        except OSError:
            pass

    return stdout
