"""
The objects used by the site module to add custom builtins.
"""

# Those objects are almost immortal and they keep a reference to their module
# globals.  Defining them in the site module would keep too many references
# alive.
# Note this means this module should also avoid keep things alive in its
# globals.

import sys

class Quitter(object):
    def __init__(self, name, eof):
        self.name = name
        self.eof = eof
    def __repr__(self):
        return 'Use %s() or %s to exit' % (self.name, self.eof)
    def __call__(self, code=None):
        # Shells like IDLE catch the SystemExit, but listen when their
        # stdin wrapper is closed.
        try:
            sys.stdin.close()
        except:
            pass
        raise SystemExit(code)


class _Printer(object):
    """interactive prompt objects for printing the license text, a list of
    contributors and the copyright notice."""

    MAXLINES = 23

    def __init__(self, name, data, files=(), dirs=()):
        import os
        self.__name = name
        self.__data = data
        self.__lines = None
        self.__filenames = [os.path.join(dir, filename)
                            for dir in dirs
                            for filename in files]

    def __setup(self):
        if self.__lines:
            return
        data = None
        for filename in self.__filenames:
            try:
                with open(filename, encoding='utf-8') as fp:
                    data = fp.read()
                break
            except OSError:
                pass
        if not data:
            data = self.__data
        self.__lines = data.split('\n')
        self.__linecnt = len(self.__lines)

    def __repr__(self):
        self.__setup()
        if len(self.__lines) <= self.MAXLINES:
            return "\n".join(self.__lines)
        else:
            return "Type %s() to see the full %s text" % ((self.__name,)*2)

    def __call__(self):
        self.__setup()
        prompt = 'Hit Return for more, or q (and Return) to quit: '
        lineno = 0
        while 1:
            try:
                for i in range(lineno, lineno + self.MAXLINES):
                    print(self.__lines[i])
            except IndexError:
                break
            else:
                lineno += self.MAXLINES
                key = None
                while key is None:
                    key = input(prompt)
                    if key not in ('', 'q'):
                        key = None
                if key == 'q':
                    break


class _Helper(object):
    """Define the builtin 'help'.

    This is a wrapper around pydoc.help that provides a helpful message
    when 'help' is typed at the Python interactive prompt.

    Calling help() at the Python prompt starts an interactive help session.
    Calling help(thing) prints help for the python object 'thing'.
    """

    def __repr__(self):
        return "Type help() for interactive help, " \
               "or help(object) for help about object."
    def __call__(self, *args, **kwds):
        import pydoc
        return pydoc.help(*args, **kwds)
