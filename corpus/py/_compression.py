"""Internal classes used by the gzip, lzma and bz2 modules"""

import io
import sys

BUFFER_SIZE = io.DEFAULT_BUFFER_SIZE  # Compressed data read chunk size


class BaseStream(io.BufferedIOBase):
    """Mode-checking helper functions."""

    def _check_not_closed(self):
        if self.closed:
            raise ValueError("I/O operation on closed file")

    def _check_can_read(self):
        if not self.readable():
            raise io.UnsupportedOperation("File not open for reading")

    def _check_can_write(self):
        if not self.writable():
            raise io.UnsupportedOperation("File not open for writing")

    def _check_can_seek(self):
        if not self.readable():
            raise io.UnsupportedOperation("Seeking is only supported "
                                          "on files open for reading")
        if not self.seekable():
            raise io.UnsupportedOperation("The underlying file object "
                                          "does not support seeking")


class DecompressReader(io.RawIOBase):
    """Adapts the decompressor API to a RawIOBase reader API"""

    def readable(self):
        return True

    def __init__(self, fp, decomp_factory, trailing_error=(), **decomp_args):
        self._fp = fp
        self._eof = False
        self._pos = 0  # Current offset in decompressed stream

        # Set to size of decompressed stream once it is known, for SEEK_END
        self._size = -1

        # Save the decompressor factory and arguments.
        # If the file contains multiple compressed streams, each
        # stream will need a separate decompressor object. A new decompressor
        # object is also needed when implementing a backwards seek().
        self._decomp_factory = decomp_factory
        self._decomp_args = decomp_args
        self._decompressor = self._decomp_factory(**self._decomp_args)

        # Exception class to catch from decompressor signifying invalid
        # trailing data to ignore
        self._trailing_error = trailing_error

    def close(self):
        self._decompressor = None
        return super().close()

    def seekable(self):
        return self._fp.seekable()

    def readinto(self, b):
        with memoryview(b) as view, view.cast("B") as byte_view:
            data = self.read(len(byte_view))
            byte_view[:len(data)] = data
        return len(data)

    def read(self, size=-1):
        if size < 0:
            return self.readall()

        if not size or self._eof:
            return b""
        data = None  # Default if EOF is encountered
        # Depending on the input data, our call to the decompressor may not
        # return any data. In this case, try again after reading another block.
        while True:
            if self._decompressor.eof:
                rawblock = (self._decompressor.unused_data or
                            self._fp.read(BUFFER_SIZE))
                if not rawblock:
                    break
                # Continue to next stream.
                self._decompressor = self._decomp_factory(
                    **self._decomp_args)
                try:
                    data = self._decompressor.decompress(rawblock, size)
                except self._trailing_error:
                    # Trailing data isn't a valid compressed stream; ignore it.
                    break
            else:
                if self._decompressor.needs_input:
                    rawblock = self._fp.read(BUFFER_SIZE)
                    if not rawblock:
                        raise EOFError("Compressed file ended before the "
                                       "end-of-stream marker was reached")
                else:
                    rawblock = b""
                data = self._decompressor.decompress(rawblock, size)
            if data:
                break
        if not data:
            self._eof = True
            self._size = self._pos
            return b""
        self._pos += len(data)
        return data

    def readall(self):
        chunks = []
        # sys.maxsize means the max length of output buffer is unlimited,
        # so that the whole input buffer can be decompressed within one
        # .decompress() call.
        while data := self.read(sys.maxsize):
            chunks.append(data)

        return b"".join(chunks)

    # Rewind the file to the beginning of the data stream.
    def _rewind(self):
        self._fp.seek(0)
        self._eof = False
        self._pos = 0
        self._decompressor = self._decomp_factory(**self._decomp_args)

    def seek(self, offset, whence=io.SEEK_SET):
        # Recalculate offset as an absolute file position.
        if whence == io.SEEK_SET:
            pass
        elif whence == io.SEEK_CUR:
            offset = self._pos + offset
        elif whence == io.SEEK_END:
            # Seeking relative to EOF - we need to know the file's size.
            if self._size < 0:
                while self.read(io.DEFAULT_BUFFER_SIZE):
                    pass
            offset = self._size + offset
        else:
            raise ValueError("Invalid value for whence: {}".format(whence))

        # Make it so that offset is the number of bytes to skip forward.
        if offset < self._pos:
            self._rewind()
        else:
            offset -= self._pos

        # Read and discard data until we reach the desired position.
        while offset > 0:
            data = self.read(min(io.DEFAULT_BUFFER_SIZE, offset))
            if not data:
                break
            offset -= len(data)

        return self._pos

    def tell(self):
        """Return the current file position."""
        return self._pos
