from _weakrefset import WeakSet


def get_cache_token():
    """Returns the current ABC cache token.

    The token is an opaque object (supporting equality testing) identifying the
    current version of the ABC cache for virtual subclasses. The token changes
    with every call to ``register()`` on any ABC.
    """
    return ABCMeta._abc_invalidation_counter


class ABCMeta(type):
    """Metaclass for defining Abstract Base Classes (ABCs).

    Use this metaclass to create an ABC.  An ABC can be subclassed
    directly, and then acts as a mix-in class.  You can also register
    unrelated concrete classes (even built-in classes) and unrelated
    ABCs as 'virtual subclasses' -- these and their descendants will
    be considered subclasses of the registering ABC by the built-in
    issubclass() function, but the registering ABC won't show up in
    their MRO (Method Resolution Order) nor will method
    implementations defined by the registering ABC be callable (not
    even via super()).
    """

    # A global counter that is incremented each time a class is
    # registered as a virtual subclass of anything.  It forces the
    # negative cache to be cleared before its next use.
    # Note: this counter is private. Use `abc.get_cache_token()` for
    #       external code.
    _abc_invalidation_counter = 0

    def __new__(mcls, name, bases, namespace, /, **kwargs):
        cls = super().__new__(mcls, name, bases, namespace, **kwargs)
        # Compute set of abstract method names
        abstracts = {name
                     for name, value in namespace.items()
                     if getattr(value, "__isabstractmethod__", False)}
        for base in bases:
            for name in getattr(base, "__abstractmethods__", set()):
                value = getattr(cls, name, None)
                if getattr(value, "__isabstractmethod__", False):
                    abstracts.add(name)
        cls.__abstractmethods__ = frozenset(abstracts)
        # Set up inheritance registry
        cls._abc_registry = WeakSet()
        cls._abc_cache = WeakSet()
        cls._abc_negative_cache = WeakSet()
        cls._abc_negative_cache_version = ABCMeta._abc_invalidation_counter
        return cls

    def register(cls, subclass):
        """Register a virtual subclass of an ABC.

        Returns the subclass, to allow usage as a class decorator.
        """
        if not isinstance(subclass, type):
            raise TypeError("Can only register classes")
        if issubclass(subclass, cls):
            return subclass  # Already a subclass
        # Subtle: test for cycles *after* testing for "already a subclass";
        # this means we allow X.register(X) and interpret it as a no-op.
        if issubclass(cls, subclass):
            # This would create a cycle, which is bad for the algorithm below
            raise RuntimeError("Refusing to create an inheritance cycle")
        cls._abc_registry.add(subclass)
        ABCMeta._abc_invalidation_counter += 1  # Invalidate negative cache
        return subclass

    def _dump_registry(cls, file=None):
        """Debug helper to print the ABC registry."""
        print(f"Class: {cls.__module__}.{cls.__qualname__}", file=file)
        print(f"Inv. counter: {get_cache_token()}", file=file)
        for name in cls.__dict__:
            if name.startswith("_abc_"):
                value = getattr(cls, name)
                if isinstance(value, WeakSet):
                    value = set(value)
                print(f"{name}: {value!r}", file=file)

    def _abc_registry_clear(cls):
        """Clear the registry (for debugging or testing)."""
        cls._abc_registry.clear()

    def _abc_caches_clear(cls):
        """Clear the caches (for debugging or testing)."""
        cls._abc_cache.clear()
        cls._abc_negative_cache.clear()

    def __instancecheck__(cls, instance):
        """Override for isinstance(instance, cls)."""
        # Inline the cache checking
        subclass = instance.__class__
        if subclass in cls._abc_cache:
            return True
        subtype = type(instance)
        if subtype is subclass:
            if (cls._abc_negative_cache_version ==
                ABCMeta._abc_invalidation_counter and
                subclass in cls._abc_negative_cache):
                return False
            # Fall back to the subclass check.
            return cls.__subclasscheck__(subclass)
        return any(cls.__subclasscheck__(c) for c in (subclass, subtype))

    def __subclasscheck__(cls, subclass):
        """Override for issubclass(subclass, cls)."""
        if not isinstance(subclass, type):
            raise TypeError('issubclass() arg 1 must be a class')
        # Check cache
        if subclass in cls._abc_cache:
            return True
        # Check negative cache; may have to invalidate
        if cls._abc_negative_cache_version < ABCMeta._abc_invalidation_counter:
            # Invalidate the negative cache
            cls._abc_negative_cache = WeakSet()
            cls._abc_negative_cache_version = ABCMeta._abc_invalidation_counter
        elif subclass in cls._abc_negative_cache:
            return False
        # Check the subclass hook
        ok = cls.__subclasshook__(subclass)
        if ok is not NotImplemented:
            assert isinstance(ok, bool)
            if ok:
                cls._abc_cache.add(subclass)
            else:
                cls._abc_negative_cache.add(subclass)
            return ok
        # Check if it's a direct subclass
        if cls in getattr(subclass, '__mro__', ()):
            cls._abc_cache.add(subclass)
            return True
        # Check if it's a subclass of a registered class (recursive)
        for rcls in cls._abc_registry:
            if issubclass(subclass, rcls):
                cls._abc_cache.add(subclass)
                return True
        # Check if it's a subclass of a subclass (recursive)
        for scls in cls.__subclasses__():
            if issubclass(subclass, scls):
                cls._abc_cache.add(subclass)
                return True
        # No dice; update negative cache
        cls._abc_negative_cache.add(subclass)
        return False
