"""Shared AIX support functions."""

import sys
import sysconfig

try:
    import subprocess
except ImportError:  # pragma: no cover
    # _aix_support is used in distutils by setup.py to build C extensions,
    # before subprocess dependencies like _posixsubprocess are available.
    import _bootsubprocess as subprocess


def _aix_tag(vrtl, bd):
    # type: (List[int], int) -> str
    # Infer the ABI bitwidth from maxsize (assuming 64 bit as the default)
    _sz = 32 if sys.maxsize == (2**31-1) else 64
    _bd = bd if bd != 0 else 9988
    # vrtl[version, release, technology_level]
    return "aix-{:1x}{:1d}{:02d}-{:04d}-{}".format(vrtl[0], vrtl[1], vrtl[2], _bd, _sz)


# extract version, release and technology level from a VRMF string
def _aix_vrtl(vrmf):
    # type: (str) -> List[int]
    v, r, tl = vrmf.split(".")[:3]
    return [int(v[-1]), int(r), int(tl)]


def _aix_bos_rte():
    # type: () -> Tuple[str, int]
    """
    Return a Tuple[str, int] e.g., ['7.1.4.34', 1806]
    The fileset bos.rte represents the current AIX run-time level. It's VRMF and
    builddate reflect the current ABI levels of the runtime environment.
    If no builddate is found give a value that will satisfy pep425 related queries
    """
    # All AIX systems to have lslpp installed in this location
    out = subprocess.check_output(["/usr/bin/lslpp", "-Lqc", "bos.rte"])
    out = out.decode("utf-8")
    out = out.strip().split(":")  # type: ignore
    _bd = int(out[-1]) if out[-1] != '' else 9988
    return (str(out[2]), _bd)


def aix_platform():
    # type: () -> str
    """
    AIX filesets are identified by four decimal values: V.R.M.F.
    V (version) and R (release) can be retrieved using ``uname``
    Since 2007, starting with AIX 5.3 TL7, the M value has been
    included with the fileset bos.rte and represents the Technology
    Level (TL) of AIX. The F (Fix) value also increases, but is not
    relevant for comparing releases and binary compatibility.
    For binary compatibility the so-called builddate is needed.
    Again, the builddate of an AIX release is associated with bos.rte.
    AIX ABI compatibility is described  as guaranteed at: https://www.ibm.com/\
    support/knowledgecenter/en/ssw_aix_72/install/binary_compatability.html

    For pep425 purposes the AIX platform tag becomes:
    "aix-{:1x}{:1d}{:02d}-{:04d}-{}".format(v, r, tl, builddate, bitsize)
    e.g., "aix-6107-1415-32" for AIX 6.1 TL7 bd 1415, 32-bit
    and, "aix-6107-1415-64" for AIX 6.1 TL7 bd 1415, 64-bit
    """
    vrmf, bd = _aix_bos_rte()
    return _aix_tag(_aix_vrtl(vrmf), bd)


# extract vrtl from the BUILD_GNU_TYPE as an int
def _aix_bgt():
    # type: () -> List[int]
    gnu_type = sysconfig.get_config_var("BUILD_GNU_TYPE")
    if not gnu_type:
        raise ValueError("BUILD_GNU_TYPE is not defined")
    return _aix_vrtl(vrmf=gnu_type)


def aix_buildtag():
    # type: () -> str
    """
    Return the platform_tag of the system Python was built on.
    """
    # AIX_BUILDDATE is defined by configure with:
    # lslpp -Lcq bos.rte | awk -F:  '{ print $NF }'
    build_date = sysconfig.get_config_var("AIX_BUILDDATE")
    try:
        build_date = int(build_date)
    except (ValueError, TypeError):
        raise ValueError(f"AIX_BUILDDATE is not defined or invalid: "
                         f"{build_date!r}")
    return _aix_tag(_aix_bgt(), build_date)
