"""Entry point:  /venv/bin/python -m mc.run <ID> --tier quick|thorough [--replay file]"""
from __future__ import annotations

import argparse
import importlib
import json
import os
import sys
import traceback

from mc import core


def main(argv=None) -> int:
    ap = argparse.ArgumentParser()
    ap.add_argument("prop")
    ap.add_argument("--tier", default=os.environ.get("VERIF_TIER", "quick"), choices=["quick", "thorough"])
    ap.add_argument("--replay")
    ap.add_argument("--workers", type=int, default=None)
    args = ap.parse_args(argv)
    core.pin_environment()
    seed = int(os.environ.get("VERIF_SEED", "0") or 0)
    mod = importlib.import_module(f"mc.checks.{args.prop.lower()}")
    if args.replay:
        rec = json.loads(open(args.replay).read())
        viol = mod.replay(rec["case"])
        for v in viol:
            print(f"VIOLATION property={args.prop} replay={args.replay}")
            print(f"  kind={v['kind']} sig={json.dumps(v['sig'])}\n  detail={v.get('detail', '')[:1500]}")
        if not viol:
            print(f"[{args.prop}] replay {args.replay}: property holds on this case")
        return 1 if viol else 0
    ctx = core.Ctx(args.prop, args.tier, seed, args.workers)
    try:
        mod.run(ctx)
        return core.finish(ctx, mod, getattr(mod, "replay", None))
    except core.HarnessError as e:
        print(f"HARNESS-ERROR {e}", file=sys.stderr)
        return 2
    except Exception:
        traceback.print_exc()
        print("HARNESS-ERROR unexpected exception in the explorer", file=sys.stderr)
        return 2


if __name__ == "__main__":
    sys.exit(main())
