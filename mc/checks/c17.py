"""C17 - the suppression marker removes exactly the marked function.

E-prod: canonical programs (every header style, classes, neighbours with nested functions) x
every subset of their markable functions x every marker variant (comment leader, case, spacing,
placement on the name's line) - and negative variants that must not suppress anything.
"""
from __future__ import annotations

import itertools
import re

from mc import core
from mc.gen import canon, oracle, programs

ID = "C17"
LEVEL = "exploration"
TECHNIQUE = "exhaustive product (program x marked subset x marker variant) against generator ground truth minus the marked functions"
LEVEL_TEXT = ("For each language, programs covering every header style, methods and neighbours with nested functions are combined with every "
              "subset of their non-nested, non-enclosing functions and every positive marker form (leader x case x spacing x placement) and "
              "negative form (word later in the comment, 'no cl', marker in a string literal, marker on the line before / after); the result "
              "must be exactly the ground truth minus the marked functions (positives) or the unchanged ground truth (negatives). A metamorphic "
              "layer does the same on non-canonical snippets and the vendored real-world corpus: marking any reported, non-nested function "
              "must remove exactly it.")
LEVEL_NOTE = "Comment leaders enumerated: '#', '//', '/* */' exactly (##, ///, /** are ambiguous in the statement and not enumerated). Bounds in evidence."

# the marker may be followed by anything that is not a letter: space, end of comment, punctuation
POS_LINE = ["//nocl", "// nocl", "//   NOCL  some reason", "// NoCl", "// nocl: generated code", "// NOCL, see docs", "//nocl- legacy"]
POS_BLOCK = ["/*nocl*/", "/* nocl */", "/* NOCL some reason */", "/* NoCl; table-driven */", "/*nocl.*/"]
POS_HASH = ["#nocl", "# nocl", "#   nocl  some reason", "# NOCL", "# NoCl", "# nocl: generated code", "# NOCL, see docs"]
NEG_LINE = ["// see nocl", "// no cl", "// xnocl"]
NEG_BLOCK = ["/* see nocl */"]
NEG_HASH = ["# see nocl", "# no cl", "# xnocl"]


# characters that are line ends for str.splitlines() but not for the lexers (form feed, U+2028, NEL): sitting between the name and
# the marker (in a string literal of a default argument, or in a block comment) they must not move the marker to "another line"
WIDE = 70_000
SEPARATORS = ["\x0c", "\u2028", "\x85"]


def variants(lang):
    """(id, positive?, kind, payload)"""
    out = []
    if lang == "Python":
        for c in POS_HASH:
            out.append((f"trail:{c}", True, "trail", c))
        for c in NEG_HASH:
            out.append((f"trail:{c}", False, "trail", c))
        out.append(("line-before:# nocl", False, "before-line", "# nocl"))
        out.append(("line-after:# nocl", False, "after-line", "# nocl"))
        out.append(("string:# nocl", False, "string", '"# nocl"'))
        for ch in SEPARATORS:
            out.append((f"septrail:{ch!r}", True, "septrail", ch))
        out.append(("septrail:wide", True, "septrail", "w" * WIDE))
        return out
    for c in POS_LINE + POS_BLOCK:
        out.append((f"trail:{c}", True, "trail", c))
    for c in POS_BLOCK:
        out.append((f"lead:{c}", True, "lead", c))
    for c in NEG_LINE + NEG_BLOCK:
        out.append((f"trail:{c}", False, "trail", c))
    out.append(("lead:/* see nocl */", False, "lead", "/* see nocl */"))
    # TWO comments on the name's line, the marker not being the last one
    out.append(("trail:/* nocl */ // note", True, "trail", "/* nocl */ // kept for the importer"))
    out.append(("lead-and-note:/* nocl */", True, "lead-note", "/* nocl */"))
    out.append(("trail:/* note */ // nocl", True, "trail", "/* kept for the importer */ // nocl"))
    # a leading marker whose line directly follows a line comment / a preprocessor line (comment tokens that touch each other)
    out.append(("lead-below-comment:/* nocl */", True, "lead-below", ("/* nocl */", "// about the next function")))
    if lang in ("C", "C++", "C#"):
        out.append(("lead-below-directive:/* nocl */", True, "lead-below", ("/* nocl */", "#if 1" if lang != "C#" else "#region r")))
    out.append(("line-before:// nocl", False, "before-line", "// nocl"))
    out.append(("line-after:// nocl", False, "after-line", "// nocl"))
    out.append(("string:// nocl", False, "string", '"// nocl"'))
    for ch in SEPARATORS:
        out.append((f"septrail:{ch!r}", True, "septrail", ch))
    out.append(("septrail:wide", True, "septrail", "w" * WIDE))  # the marker starts beyond column 65 536
    return out


def progs(lang, thorough):
    S, f = programs.S, programs.func
    styles = canon.STYLES[lang]
    out = []
    for i in range(0, len(styles), 3):
        chunk = styles[i:i + 3]
        items = [f(f"f{j}", [S("simple"), S("if")] if j % 2 == 0 else [S("call")], st) for j, st in enumerate(chunk)]
        out.append(({"lang": lang, "items": items}, [f"f{j}" for j in range(len(chunk))]))
    if lang != "C":
        ms = canon.METHOD_STYLES[lang]
        members = [f(f"m{j}", [S("simple")], st, m=True) for j, st in enumerate(ms[:3])]
        out.append(({"lang": lang, "items": [f("f0", [S("simple")]), {"k": "class", "name": "K", "members": members}, f("f1", [S("return")])]},
                    ["f0", "f1"] + [f"m{j}" for j in range(len(members))]))
    if canon.NESTS[lang]:
        nested = programs.nested(lang, "g0", [S("simple")])
        out.append(({"lang": lang, "items": [f("f0", [S("simple")]), f("f1", [S("simple"), nested, S("simple")]), f("f2", [S("call"), S("simple")])]},
                    ["f0", "f2"]))
    if thorough:
        for kind in ("string", "trailing", "comment", programs.anon_kind(lang)):
            if kind in canon.statements(lang):
                out.append(({"lang": lang, "items": [f("f0", [S(kind), S("simple")]), {"k": "comment"}, f("f1", [S("simple"), S(kind)]), f("f2", [S(kind)] if kind != "comment" or lang != "Python" else [S("simple")])]},
                            ["f0", "f1", "f2"]))
    return out


def apply_marker(lang, text, funcs, names, kind, payload):
    """returns (new text, adjusted funcs) or None if the variant is not applicable"""
    lines = text.split("\n")
    funcs = [dict(f) for f in funcs]
    by = {f["name"]: f for f in funcs}
    inserts = []  # (line index, text) new lines
    for n in names:
        fr = by[n]
        ln = fr["start"][0] - 1
        # the marker belongs on the line of the function's NAME, which need not be the line its header starts on
        short = n.split("::")[-1]
        while ln < len(lines) - 1 and not re.search(r"(?<![A-Za-z0-9_])" + re.escape(short) + r"(?![A-Za-z0-9_])", lines[ln]):
            ln += 1
        line = lines[ln]
        if kind == "trail":
            lines[ln] = line + "  " + payload
        elif kind in ("lead", "lead-below", "lead-note"):
            indent = len(line) - len(line.lstrip())
            if kind == "lead-below":
                payload_, above = payload
                inserts.append((ln, line[:indent] + above))
            else:
                payload_ = payload
            lines[ln] = line[:indent] + payload_ + " " + line[indent:] + ("  // kept for the importer" if kind == "lead-note" else "")
            shift = len(payload_) + 1
            for g in funcs:
                if g["start"][0] == ln + 1:
                    g["start"] = (g["start"][0], g["start"][1] + shift)
                if g["end"][0] == ln + 1:
                    g["end"] = (g["end"][0], g["end"][1] + shift)
        elif kind == "string":
            # a string literal holding the marker, inside the parameter list on the name's line
            if lang in ("C", "Java"):
                return None
            decl = {"Python": "zz={}", "JavaScript": "zz = {}", "TypeScript": "zz: string = {}",
                    "C++": "const char* zz = {}", "C#": "string zz = {}"}[lang].format(payload)
            close = line.rfind(")")
            if close >= 0 and "(" in line[:close]:
                empty = line[:close].rstrip().endswith("(")
                param = decl if empty else ", " + decl
                at = close
            elif line.rstrip().endswith("("):
                param = decl + ", "
                at = len(line.rstrip())
            else:
                return None
            lines[ln] = line[:at] + param + line[at:]
            shift = len(param)
            for g in funcs:
                if g["end"][0] == ln + 1 and g["end"][1] - 1 >= at:
                    g["end"] = (g["end"][0], g["end"][1] + shift)
        elif kind == "septrail":
            lead = "#" if lang == "Python" else "//"
            if lang in ("C", "Java"):
                lines[ln] = line + " /* " + payload + " */ " + lead + " nocl"
            else:
                decl = {"Python": "zz={}", "JavaScript": "zz = {}", "TypeScript": "zz: string = {}",
                        "C++": "const char* zz = {}", "C#": "string zz = {}"}[lang].format('"' + payload + '"')
                close = line.rfind(")")
                if close >= 0 and "(" in line[:close]:
                    param = decl if line[:close].rstrip().endswith("(") else ", " + decl
                    at = close
                elif line.rstrip().endswith("("):
                    param, at = decl + ", ", len(line.rstrip())
                else:
                    return None
                lines[ln] = line[:at] + param + line[at:] + "  " + lead + " nocl"
                shift = len(param)
                for g in funcs:
                    if g["end"][0] == ln + 1 and g["end"][1] - 1 >= at:
                        g["end"] = (g["end"][0], g["end"][1] + shift)
        elif kind == "before-line":
            indent = len(line) - len(line.lstrip())
            inserts.append((ln, line[:indent] + payload))
        elif kind == "after-line":
            nxt = lines[ln + 1] if ln + 1 < len(lines) else ""
            indent = len(nxt) - len(nxt.lstrip())
            inserts.append((ln + 1, nxt[:indent] + payload))
    for at, t in sorted(inserts, reverse=True):
        lines.insert(at, t)
        for g in funcs:
            if g["start"][0] - 1 >= at:
                g["start"] = (g["start"][0] + 1, g["start"][1])
            if g["end"][0] - 1 >= at:
                g["end"] = (g["end"][0] + 1, g["end"][1])
    return "\n".join(lines), funcs


def eval_case(lang, spec, names, vid):
    v = [x for x in variants(lang) if x[0] == vid][0]
    _, positive, kind, payload = v
    text, funcs = canon.render(spec)
    actual = {f["name"].split("::")[-1]: f["name"] for f in funcs}
    names = [actual[n] for n in names]
    res = apply_marker(lang, text, funcs, names, kind, payload)
    if res is None:
        return None, []
    text2, funcs2 = res
    problems = oracle.selfcheck_truth(lang, text2, funcs2)
    if problems and kind in ("string", "septrail"):
        return None, []  # the extra parameter changed how Pygments lexes the header: variant not applicable here
    if problems:
        raise core.HarnessError(f"marker placement broke the ground truth: {problems[:2]}\n{text2}")
    exp_all = oracle.expected(lang, text2, funcs2, canon.NESTS[lang])
    exp = [e for e in exp_all if not (positive and e[0] in names)]
    try:
        got = oracle.measured(lang, text2)
    except Exception as e:  # noqa
        return None, [("analysis-raises", {"language": lang, "error": type(e).__name__}, repr(e))]
    out = []
    if got != exp:
        gn, en = [g[0] for g in got], [e[0] for e in exp]
        sig = {"language": lang, "positive": positive, "form": kind}
        if positive and any(n in gn for n in names):
            out.append(("marked-function-still-reported", sig, f"{[n for n in names if n in gn]} carry {payload!r} on the name's line\n{text2}"))
        elif not positive and any(n not in gn for n in en):
            out.append(("unmarked-function-suppressed", sig, f"{[n for n in en if n not in gn]} missing although {payload!r} ({kind}) must not suppress\n{text2}"))
        elif gn != en:
            out.append(("other-function-removed-or-added", sig, f"reported {gn}, expected {en}\n{text2}"))
        else:
            diff = [(g, e) for g, e in zip(got, exp) if g != e]
            out.append(("other-function-changed", sig, f"{diff[:2]}\n{text2}"))
    return len(got), out


# ---------------------------------------------------------------------------------------
# metamorphic layer on real-world and non-canonical code: no ground truth needed
# ---------------------------------------------------------------------------------------

def eval_real(lang, src, name, thorough):
    """baseline = what the tool reports for the file; for every reported function that neither encloses nor is nested in
    another reported one: put a trailing marker on its name's line -> exactly that function disappears, nothing else changes"""
    from pygments.token import Name

    from mc.checks import c04

    text = c04.load_file({"src": src, "lang": lang, "name": name})
    if not text.endswith("\n"):
        text += "\n"
    try:
        base = oracle.measured(lang, text)
    except Exception:
        return 0, []
    stream0 = c04.code_stream(lang, text)
    lines, line_safe, trail_safe = c04.safe_boundaries(lang, text)
    starts = oracle.line_starts(text)
    toks = oracle.raw_code_tokens(lang, text)
    out = []
    n = 0
    markers = (["# nocl"] if lang == "Python" else ["// nocl", "/* NOCL */"]) if thorough else (["# nocl"] if lang == "Python" else ["// nocl"])
    # name line of every reported function; functions that enclose / are nested in another one are not markable
    name_line = {}
    span = {}
    for i, f in enumerate(base):
        try:
            s_off, e_off = oracle.pos_to_off(starts, f[1]), oracle.pos_to_off(starts, f[2])
        except IndexError:
            return -1, []  # the baseline reports a position outside the file (C05's subject): nothing to mark here
        span[i] = (s_off, e_off)
        nt = next((off for off, ty, val in toks if s_off <= off < e_off and ty in Name and val == f[0]), None)
        name_line[i] = oracle.off_to_line(starts, nt) if nt is not None else None
    involved = {i for i in span for j in span if i != j and (span[j][0] <= span[i][0] < span[j][1] or span[i][0] <= span[j][0] < span[i][1])}
    by_line = {}
    for i, ln in name_line.items():
        if ln is not None:
            by_line.setdefault(ln, []).append(i)
    from pygments.token import Comment

    comment_lines = {oracle.off_to_line(starts, off) for off, ty, val in oracle.lexer(lang).get_tokens_unprocessed(text) if ty in Comment}
    for ln, idxs in sorted(by_line.items()):
        if ln not in trail_safe or any(i in involved for i in idxs):
            continue
        if ln in comment_lines:
            continue  # text appended after an existing line comment would become part of THAT comment
        i = idxs[0]
        f = base[i]
        for mk in markers:
            new_lines = list(lines)
            new_lines[ln - 1] = new_lines[ln - 1] + "  " + mk
            text2 = "\n".join(new_lines) + "\n"
            if c04.code_stream(lang, text2) != stream0:
                continue
            n += 1
            try:
                got = oracle.measured(lang, text2)
            except Exception as e:  # noqa
                out.append(("analysis-raises", {"language": lang, "error": type(e).__name__}, {"function": f[0], "line": ln, "marker": mk}, repr(e)))
                continue
            want = [g for j, g in enumerate(base) if j not in idxs]  # every function whose NAME is on the marked line
            if got != want:
                gn, wn = [g[0] for g in got], [g[0] for g in want]
                kind = "marked-function-still-reported" if any(base[j] in got for j in idxs) else ("other-function-removed-or-added" if gn != wn else "other-function-changed")
                out.append((kind, {"language": language_sig(lang), "positive": True, "form": "real-code"}, {"function": f[0], "line": ln, "marker": mk},
                            f"{name}: marking {f[0]} (line {ln}) with {mk!r}: reported {gn}, expected {wn}"))
    return n, out


def language_sig(lang):
    return lang


def _block(block, agg):
    if block[0] == "real":
        _, lang, src, name, thorough = block
        n, viol = eval_real(lang, src, name, thorough)
        if n < 0:
            agg.extra["real_code_baseline_malformed(see C05)"] += 1
            n = 0
        case = {"part": "real", "lang": lang, "src": src, "name": name, "thorough": thorough}
        agg.case(case, n > 0, f"{n} markable", sample=False)
        agg.extra["real_code_marker_cases"] += n
        for k, sig, extra, d in viol:
            agg.violation(k, sig, dict(case, **extra), d)
        return
    lang, thorough, pi = block
    spec, markable = progs(lang, thorough)[pi]
    for r in range(0, len(markable) + 1):
        for names in itertools.combinations(markable, r):
            for vid, positive, kind, payload in variants(lang):
                if not names and vid != variants(lang)[0][0]:
                    continue
                case = {"lang": lang, "spec": spec, "marked": list(names), "variant": vid}
                n, viol = eval_case(lang, spec, list(names), vid)
                if n is None and not viol:
                    agg.extra["variant_not_applicable"] += 1
                    continue
                agg.case(case, bool(names), (len(names), positive, n), sample=len(names) == 2 and kind != "trail")
                for k, sig, d in viol:
                    agg.violation(k, sig, case, d)


def replay(case):
    if case.get("part") == "real":
        _, viol = eval_real(case["lang"], case["src"], case["name"], case.get("thorough", False))
        return [{"kind": k, "sig": s, "detail": d} for k, s, e, d in viol if e.get("function") == case.get("function")] or \
               [{"kind": k, "sig": s, "detail": d} for k, s, e, d in viol]
    _, viol = eval_case(case["lang"], case["spec"], case["marked"], case["variant"])
    return [{"kind": k, "sig": s, "detail": d} for k, s, d in viol]


def run(ctx: core.Ctx):
    thorough = not ctx.quick
    ctx.bounds = {"programs_per_language": {l: len(progs(l, thorough)) for l in canon.LANGS},
                  "variants": {l: [v[0] for v in variants(l)] for l in ("Python", "JavaScript")}}
    ctx.rule = ("case = (program, marked subset, marker variant); every subset of the markable functions of every program x every variant. "
                "Non-trivial: at least one function marked. Outcome = (#marked, positive?, #reported).")
    blocks = [(lang, thorough, i) for lang in canon.LANGS for i in range(len(progs(lang, thorough)))]
    from mc.gen import malformed, wild

    for lang in canon.LANGS:
        for name, _t in wild.snippets(lang):
            blocks.append(("real", lang, "wild", name, thorough))
        for name in malformed.corpus_files(lang)[: (8 if thorough else 3)]:
            blocks.append(("real", lang, "corpus", name, thorough))
    ctx.bounds["real_code"] = "every markable function of every wild snippet and of the corpus files (3 per language quick, all thorough), one marker each (two in thorough)"
    ctx.run_blocks(_block, blocks)
