"""C15 - built-in header / follow-up patterns are unambiguous on every token.

Complete reachability over the finite product (DFA state x predicate state) x token class on
the real objects: configurations are reached by replaying a token history on a fresh real
Pattern (predicates mutate on accept, even on rejected transitions), canonicalised as
(index of the DFA state, snapshot of every predicate copy of the attempt with Balanced depth
capped at DEPTH_CAP - the cap is validated against the real class), expanded with one
representative token per class induced by the predicates of that expression.
"""
from __future__ import annotations

from mc import core
from mc.checks.c14 import mk_token, predicate_values

ID = "C15"
LEVEL = "model_checking"
TECHNIQUE = "explicit-state reachability (BFS to fixpoint) over (DFA state x predicate state) x token class on the real Pattern objects"
LEVEL_TEXT = ("For every expression a shipped language passes to find_all / starts_with (captured at run time from the working "
              "tree) the reachable configuration space (DFA state x nesting-depth class of every Balanced copy) is explored to a "
              "fixpoint and every token class the predicates can distinguish is offered in every configuration; the oracle is that "
              "at most one transition accepts (Pattern.consume never raises 'Multiple transitions found!'). The space is finite "
              "and explored completely; the depth cap is validated on the real Balanced class.")
LEVEL_NOTE = ("Assumes tokens differ only in (pygments kind, value) as far as predicates are concerned, which holds for every predicate "
              "class in codelimit/common/token_matching (checked by enumerating their attributes); nesting depths >= cap behave like the cap "
              "(checked by comparing accept vectors for depths cap..cap+5).")

DEPTH_CAP = 3
KINDS = ["kw", "id", "p", "op", "lit", "txt"]


def probe_tokens():
    return [mk_token("id", 0), mk_token("p:(", 1), mk_token("p:)", 2), mk_token("p:{", 3)]


def capture():
    """{language: [("header"|"follow-up", expression), ...]} from the working tree"""
    from codelimit.common.scope import scope_utils
    from codelimit.languages import Languages

    class FakePattern:
        def __init__(self, toks):
            self.start, self.end, self.tokens = 0, 0, toks

    out = {}
    real_fa, real_sw = scope_utils.find_all, scope_utils.starts_with
    for name, lang in sorted(Languages.by_name.items()):
        got = []
        toks = probe_tokens()

        def fa(expression, tokens, _g=got, _t=toks):
            _g.append(("header", expression))
            return [FakePattern(_t[:1])]

        def sw(expression, tokens, _g=got):
            _g.append(("follow-up", expression))
            return None

        scope_utils.find_all, scope_utils.starts_with = fa, sw
        try:
            lang.extract_headers(toks)
        finally:
            scope_utils.find_all, scope_utils.starts_with = real_fa, real_sw
        if not any(k == "header" for k, _ in got):
            raise core.HarnessError(f"seam scope_utils.find_all never hit for {name}")
        out[name] = got
    return out


def tok(code, pos=0):
    """token codes: '<kind>:<value>'"""
    from pygments.token import Keyword as K, Name as N, Operator as O, Punctuation as P, Literal, Text

    from codelimit.common.Location import Location
    from codelimit.common.Token import Token

    kind, _, value = code.partition(":")
    ty = {"kw": K, "id": N, "p": P, "op": O, "lit": Literal.Number, "txt": Text}[kind]
    return Token(Location(1, pos + 1), ty, value)


def token_classes(expr):
    pv = predicate_values(expr)
    values = sorted({v for _, v in pv} | {"(", ")"})
    values.append("\x00other")
    # natural classes first, so that the shortest counterexample reads like source text
    natural = ["id:\x00other", "p:(", "p:)"]
    for cls, v in sorted(pv):
        natural.append({"Keyword": "kw:", "Operator": "op:"}.get(cls, "p:") + v)
    natural += ["p:\x00other", "op:\x00other", "kw:\x00other", "lit:\x00other"]
    out = []
    for c in natural + [f"{k}:{v}" for k in KINDS for v in values]:
        if c not in out:
            out.append(c)
    return out


def snapshot(pred, depth_cap=DEPTH_CAP):
    d = getattr(pred, "__dict__", {})
    items = []
    for k in sorted(d):
        v = d[k]
        if hasattr(v, "accept"):
            items.append((k, snapshot(v, depth_cap)))
        elif k == "depth" and isinstance(v, int):
            items.append((k, max(-1, min(v, depth_cap))))
        elif isinstance(v, (int, str, bool, type(None))):
            items.append((k, v))
        else:
            items.append((k, repr(v)))
    return (type(pred).__name__, tuple(items))


def dfa_index(dfa):
    """stable enumeration of DFA states and of predicate objects"""
    order, preds = {}, {}
    stack = [dfa.start]
    while stack:
        st = stack.pop()
        if id(st) in order:
            continue
        order[id(st)] = len(order)
        for p, tgt in st.transition:
            preds.setdefault(id(p), len(preds))
        for p, tgt in reversed(st.transition):
            stack.append(tgt)
    return order, preds


def run_history(dfa, history):
    """fresh real Pattern, feed the history; returns (pattern, alive, ambiguity_at)"""
    from codelimit.common.gsm.Pattern import Pattern

    p = Pattern(0, dfa)
    for i, code in enumerate(history):
        try:
            r = p.consume(tok(code, i))
        except ValueError as e:
            if "Multiple transitions" in str(e):
                return p, False, i
            raise
        if not r:
            return p, False, None
    return p, True, None


def canon(p, order, preds):
    ps = tuple(sorted((preds[k], snapshot(v)) for k, v in p.predicate_map.items()))
    return (order[id(p.state)], ps)


def explore_expression(expr, agg, label):
    from codelimit.common.gsm.Expression import expression_to_nfa, nfa_to_dfa

    dfa = nfa_to_dfa(expression_to_nfa(expr))
    order, preds = dfa_index(dfa)
    classes = token_classes(expr)
    p0, _, _ = run_history(dfa, [])
    seen = {canon(p0, order, preds): []}
    frontier = [[]]
    found = []
    while frontier:
        nxt = []
        for hist in frontier:
            for c in classes:
                h = hist + [c]
                p, alive, amb = run_history(dfa, h)
                agg.transitions += 1
                if amb is not None:
                    found.append(h)
                    continue
                if not alive:
                    continue
                k = canon(p, order, preds)
                if k not in seen:
                    seen[k] = h
                    nxt.append(h)
        frontier = nxt
    for k in seen:
        agg.state([label, repr(k)])
    return found, len(seen), len(classes), len(order)


def validate_depth_cap(agg):
    """Balanced must not distinguish depths >= DEPTH_CAP"""
    from codelimit.common.token_matching.predicate.Balanced import Balanced

    bad = []
    for code in [f"{k}:{v}" for k in KINDS for v in ("(", ")", "x")]:
        ref = None
        for depth in range(DEPTH_CAP, DEPTH_CAP + 6):
            b = Balanced("(", ")")
            b.depth = depth
            r = b.accept(tok(code))
            obs = (r, b.depth - depth)
            if ref is None:
                ref = obs
            elif obs != ref:
                bad.append((code, depth, obs, ref))
    return bad


LEXEME = {"id": "x", "lit": "1"}


def source_witness(lang_name, history):
    """try to turn an abstract token history into source text that makes scan_file raise"""
    from pygments.lexers import get_lexer_by_name

    from codelimit.common.lexer_utils import lex
    from codelimit.common.Scanner import scan_file
    from codelimit.languages import Languages

    words = []
    for code in history:
        kind, _, v = code.partition(":")
        if v.startswith("\x00"):
            v = {"kw": "if", "id": "x", "p": ";", "op": "+", "lit": "1", "txt": "x"}[kind]
        words.append(v)
    text = " ".join(words)
    alias = {"C#": "csharp", "C++": "cpp"}.get(lang_name, lang_name.lower())
    try:
        toks = lex(get_lexer_by_name(alias), text, False)
        scan_file(toks, Languages.by_name[lang_name])
    except ValueError as e:
        if "Multiple transitions" in str(e):
            return text
    except Exception:
        return None
    return None


def check_language(lang, agg):
    out = []
    cap = capture()[lang]
    for idx, (role, expr) in enumerate(cap):
        label = f"{lang}[{idx}:{role}]"
        found, nstates, nclasses, ndfa = explore_expression(expr, agg, label)
        agg.extra[f"configs {label}"] = nstates
        agg.extra[f"token_classes {label}"] = nclasses
        case = {"language": lang, "expr": idx, "role": role}
        agg.case(case, nstates > 1, f"{ndfa} dfa states/{nstates} configs/{len(found)} ambiguous", sample=True)
        by_tok = {}
        for h in found:
            by_tok.setdefault(h[-1], h)
        for t, h in sorted(by_tok.items()):
            w = source_witness(lang, h)
            out.append(("ambiguous-transition", {"language": lang, "role": role, "token": t.replace("\x00", "")},
                        dict(case, history=h),
                        f"{label}: after tokens {h[:-1]} the token {t!r} is accepted by more than one transition"
                        + (f"; source witness: {w!r} makes scan_file raise" if w else "; no source witness found by direct rendering")))
    return out


def _block(lang, agg):
    for kind, sig, case, detail in check_language(lang, agg):
        agg.violation(kind, sig, case, detail)


def replay(case):
    cap = capture()[case["language"]]
    role, expr = cap[case["expr"]]
    from codelimit.common.gsm.Expression import expression_to_nfa, nfa_to_dfa

    dfa = nfa_to_dfa(expression_to_nfa(expr))
    _, _, amb = run_history(dfa, case["history"])
    if amb is not None:
        return [{"kind": "ambiguous-transition",
                 "sig": {"language": case["language"], "role": role, "token": case["history"][-1].replace("\x00", "")},
                 "detail": f"history {case['history']} raises 'Multiple transitions found!'"}]
    return []


def run(ctx: core.Ctx):
    from codelimit.languages import Languages

    bad = validate_depth_cap(ctx.agg)
    if bad:
        raise core.HarnessError(f"depth abstraction invalid for Balanced: {bad[:3]}")
    ctx.bounds = {"depth_cap": DEPTH_CAP, "token_kinds": KINDS, "languages": sorted(Languages.by_name)}
    ctx.rule = ("per language, every expression passed to find_all/starts_with by extract_headers (captured from the working tree); states = "
                "distinct reachable configurations (DFA state index, snapshot of each predicate copy, Balanced depth capped at "
                f"{DEPTH_CAP}); transitions = (configuration, token class) probes executed on a fresh real Pattern by history replay; "
                "token classes = 6 pygments kinds x (every string a predicate compares with + '(' + ')' + one other value). "
                "A case = one expression; non-trivial = more than one reachable configuration. Complete (fixpoint) in both tiers.")
    ctx.assumptions = ["predicates observe only token kind and value", f"Balanced behaves identically for depth >= {DEPTH_CAP} (validated at start)"]
    ctx.run_blocks(_block, sorted(Languages.by_name))
