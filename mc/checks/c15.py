"""C15 - built-in header / follow-up patterns are unambiguous on every token.

Complete reachability over the finite product (DFA state x predicate state) x token class on
the real objects: configurations are reached by replaying a token history on a fresh real
Pattern (predicates mutate on accept, even on rejected transitions), canonicalised as
(index of the DFA state, snapshot of every predicate copy of the attempt with Balanced depth
capped at DEPTH_CAP - the cap is validated against the real class), expanded with one
representative token per class induced by the predicates of that expression.
"""
from __future__ import annotations

import sys

from mc import core
from mc.checks.c14 import mk_token, predicate_values

ID = "C15"
LEVEL = "model_checking"
TECHNIQUE = "explicit-state reachability (BFS to fixpoint) over (DFA state x predicate state) x token class on the real Pattern objects"
LEVEL_TEXT = ("For every expression a shipped language passes to find_all / starts_with (captured at run time from the working "
              "tree) the reachable configuration space (DFA state x nesting-depth class of every Balanced copy) is explored to a "
              "fixpoint and every token class the predicates can distinguish is offered in every configuration; the oracle is that "
              "at most one transition accepts (counted by probing predicate copies, and Pattern.consume never raises 'Multiple transitions "
              "found!'). That space is finite and explored completely; the depth cap is validated on the real Balanced class. One level up, "
              "the reachable states of find_all itself (several concurrent attempts, their predicate maps) are explored breadth-first up to a "
              "bound on live attempts and history length (reported as a cap).")
LEVEL_NOTE = ("Assumes tokens differ only in (pygments kind, value) as far as predicates are concerned, which holds for every predicate "
              "class in codelimit/common/token_matching (checked by enumerating their attributes); nesting depths >= cap behave like the cap "
              "(checked by comparing accept vectors for depths cap..cap+5)."
              " Expressions are captured from a token probe AND by recording everything handed to the matcher while non-canonical snippets and corpus files are analysed; token kinds include one strict Pygments sub-type per base type.")

DEPTH_CAP = 3
# token kinds: the six base types the predicates test for and, for each of the four they distinguish, one STRICT sub-type as the lexers
# emit them (Keyword.Reserved / .Declaration, Name.Function, Punctuation.Marker, Operator.Word, String): a predicate that
# compares types for equality instead of containment separates a sub-type from its base
KINDS = ["kw", "id", "p", "op", "lit", "txt", "kwr", "kwd", "idf", "pm", "opw", "str"]
SEVEN = {"Python", "JavaScript", "TypeScript", "Java", "C", "C++", "C#"}


def probe_tokens():
    return [mk_token("id", 0), mk_token("p:(", 1), mk_token("p:)", 2), mk_token("p:{", 3)]


def capture():
    """{language: [("header"|"follow-up", expression), ...]} from the working tree"""
    if "v" in _CAPTURE:
        return _CAPTURE["v"]
    from codelimit.common.scope import scope_utils
    from codelimit.languages import Languages

    class FakePattern:
        def __init__(self, toks):
            self.start, self.end, self.tokens = 0, 0, toks

    out = {}
    real_fa, real_sw = scope_utils.find_all, scope_utils.starts_with
    for name, lang in sorted(Languages.by_name.items()):
        got = []
        toks = probe_tokens()

        def make(got_, toks_):
            # extra positional / keyword arguments (an offset, a flag) are accepted and ignored: only the expressions matter here
            def fa(expression, tokens, *a, **kw):
                got_.append(("header", expression))
                return [FakePattern(toks_[:1])]

            def sw(expression, tokens, *a, **kw):
                got_.append(("follow-up", expression))
                return None
            return fa, sw
        fa, sw = make(got, toks)

        scope_utils.find_all, scope_utils.starts_with = fa, sw
        try:
            lang.extract_headers(toks)
        finally:
            scope_utils.find_all, scope_utils.starts_with = real_fa, real_sw
        if not any(k == "header" for k, _ in got):
            if name not in SEVEN:
                continue  # a language registered beyond the property's seven that has no header pattern (yet): nothing to explore
            raise core.HarnessError(f"seam scope_utils.find_all never hit for {name}")
        out[name] = got
    _capture_from_real_texts(out)
    _CAPTURE["v"] = out
    return out


def expr_key(e, depth=0):
    """address-free structural description of an expression / automaton-free pattern object"""
    if isinstance(e, (list, tuple)):
        return "[" + ", ".join(expr_key(x, depth + 1) for x in e) + "]"
    if isinstance(e, (str, int, float, bool, type(None))):
        return repr(e)
    d = getattr(e, "__dict__", None)
    if d is None or depth > 8:
        return type(e).__name__
    return type(e).__name__ + "(" + ", ".join(f"{k}={expr_key(v, depth + 1)}" for k, v in sorted(d.items()) if k not in ("depth",)) + ")"


def _capture_from_real_texts(out):
    """second source of expressions: everything handed to the matcher while REAL texts are analysed (non-canonical snippets, two
    corpus files, the C06 probes) - passes that only run when the file's content asks for them, and calls that go to
    codelimit.common.gsm.matcher directly instead of through scope_utils, are seen here. Recording wrappers delegate to the real functions."""
    from codelimit.common.gsm import matcher
    from codelimit.languages import Languages
    from mc.gen import malformed, wild

    originals = {"find_all": matcher.find_all, "starts_with": matcher.starts_with}
    seen_now = []

    def rec(kind):
        real = originals[kind]

        def f(expression, *a, **kw):
            if not (hasattr(expression, "start") and hasattr(expression, "is_accepting")):
                seen_now.append(("header" if kind == "find_all" else "follow-up", expression))
            return real(expression, *a, **kw)
        return f
    fakes = {k: rec(k) for k in originals}
    patched = []
    for mname, mod in list(sys.modules.items()):
        if mod is not None and (mname == "codelimit" or mname.startswith("codelimit.")):
            for attr, val in list(vars(mod).items()):
                for k, real in originals.items():
                    if val is real:
                        patched.append((mod, attr, val))
                        setattr(mod, attr, fakes[k])
    try:
        for name in list(out):
            if name not in SEVEN:
                continue
            texts = [t for _n, t in wild.snippets(name)] + [malformed.corpus_text(name, n) for n in malformed.corpus_files(name)[:2]]
            # one LARGE file (more than 20 000 code tokens): fast paths that switch on above a size threshold build their patterns only then
            unit = dict(wild.snippets(name)).get("long-identifiers", "")
            big = max((malformed.corpus_text(name, n) for n in malformed.corpus_files(name)), key=len, default="")
            texts.append((big + "\n") * (1 + 130000 // max(1, len(big))) if big else unit * 800)
            known = {expr_key(e) for _r, e in out[name]}
            for text in texts:
                del seen_now[:]
                try:
                    from mc.gen import oracle
                    oracle.scan_text(name, text)
                except Exception:  # noqa - totality is C03's subject; whatever was handed to the matcher before is still recorded
                    pass
                for role, e in seen_now:
                    k = expr_key(e)
                    if k not in known:
                        known.add(k)
                        out[name].append((role, e))
    finally:
        for mod, attr, val in patched:
            setattr(mod, attr, val)


_CAPTURE = {}


def build_dfa(expr):
    """the automaton for a captured expression - or the captured object itself when the working tree hands the matcher a precompiled one"""
    from codelimit.common.gsm.Expression import expression_to_nfa, nfa_to_dfa

    if hasattr(expr, "start") and hasattr(expr, "is_accepting"):
        return expr
    return nfa_to_dfa(expression_to_nfa(expr))


def tok(code, pos=0):
    """token codes: '<kind>:<value>'"""
    from pygments.token import Keyword as K, Name as N, Operator as O, Punctuation as P, Literal, Text

    from codelimit.common.Location import Location
    from codelimit.common.Token import Token

    kind, _, value = code.partition(":")
    ty = {"kw": K, "id": N, "p": P, "op": O, "lit": Literal.Number, "txt": Text, "kwr": K.Reserved, "kwd": K.Declaration,
          "idf": N.Function, "pm": P.Marker, "opw": O.Word, "str": Literal.String}[kind]
    return Token(Location(1, pos + 1), ty, value)


def token_classes(expr):
    pv = predicate_values(expr)
    values = sorted({v for _, v in pv} | {"(", ")"})
    values.append("\x00other")
    # natural classes first, so that the shortest counterexample reads like source text
    natural = ["id:\x00other", "p:(", "p:)"]
    for cls, v in sorted(pv):
        natural.append({"Keyword": "kw:", "Operator": "op:"}.get(cls, "p:") + v)
    natural += ["p:\x00other", "op:\x00other", "kw:\x00other", "lit:\x00other"]
    out = []
    for c in natural + [f"{k}:{v}" for k in KINDS for v in values]:
        if c not in out:
            out.append(c)
    return out


def snapshot(pred, depth_cap=DEPTH_CAP):
    d = getattr(pred, "__dict__", {})
    items = []
    for k in sorted(d):
        v = d[k]
        if hasattr(v, "accept"):
            items.append((k, snapshot(v, depth_cap)))
        elif k == "depth" and isinstance(v, int):
            items.append((k, max(-1, min(v, depth_cap))))
        elif isinstance(v, (int, str, bool, type(None))):
            items.append((k, v))
        else:
            items.append((k, repr(v)))
    return (type(pred).__name__, tuple(items))


def pred_key(p, depth=0):
    """address-free structural description of a predicate (its initial, unmutated form is what identifies it)"""
    d = getattr(p, "__dict__", None)
    if d is None or depth > 5:
        return f"{type(p).__name__}:{p!s}" if d is None else type(p).__name__
    parts = []
    for k in sorted(d):
        v = d[k]
        parts.append(f"{k}={pred_key(v, depth + 1) if hasattr(v, 'accept') else v!r}")
    return f"{type(p).__name__}({', '.join(parts)})"


def dfa_index(dfa):
    """enumeration of DFA states and predicate objects that does NOT depend on the order of the transition lists
    (that order follows set iteration and can differ between two constructions of the same automaton)"""
    order, preds = {}, {}
    stack = [dfa.start]
    while stack:
        st = stack.pop()
        if id(st) in order:
            continue
        order[id(st)] = len(order)
        trs = sorted(st.transition, key=lambda t: pred_key(t[0]))
        for p, tgt in trs:
            preds.setdefault(id(p), len(preds))
        for p, tgt in reversed(trs):
            stack.append(tgt)
    return order, preds


def run_history(dfa, history):
    """fresh real Pattern, feed the history; returns (pattern, alive, ambiguity_at)"""
    from codelimit.common.gsm.Pattern import Pattern

    p = Pattern(0, dfa)
    for i, code in enumerate(history):
        try:
            r = p.consume(tok(code, i))
        except ValueError as e:
            if "Multiple transitions" in str(e):
                return p, False, i
            raise
        if not r:
            return p, False, None
    return p, True, None


def count_accepting(pattern, token):
    """how many transitions of the pattern's current state accept the token - probed on copies, independent of how
    Pattern.consume resolves (or hides) a conflict"""
    from copy import deepcopy

    n = 0
    for pred, _tgt in pattern.state.transition:
        probe = deepcopy(pattern.predicate_map.get(id(pred), pred))
        if probe.accept(token):
            n += 1
    return n


def canon(p, order, preds):
    ps = tuple(sorted((preds[k], snapshot(v)) for k, v in p.predicate_map.items()))
    return (order[id(p.state)], ps)


def explore_expression(expr, agg, label):
    from codelimit.common.gsm.Expression import expression_to_nfa, nfa_to_dfa

    dfa = build_dfa(expr)
    order, preds = dfa_index(dfa)
    classes = token_classes(expr)
    p0, _, _ = run_history(dfa, [])
    seen = {canon(p0, order, preds): []}
    frontier = [[]]
    found = []
    while frontier:
        nxt = []
        for hist in frontier:
            base, base_alive, _ = run_history(dfa, hist)
            for c in classes:
                h = hist + [c]
                if base_alive and count_accepting(base, tok(c, len(hist))) > 1:
                    found.append(h)
                    agg.transitions += 1
                    continue
                p, alive, amb = run_history(dfa, h)
                agg.transitions += 1
                if amb is not None:
                    found.append(h)
                    continue
                if not alive:
                    continue
                k = canon(p, order, preds)
                if k not in seen:
                    seen[k] = h
                    nxt.append(h)
        frontier = nxt
    for k in seen:
        agg.state([label, repr(k)])
    return found, len(seen), len(classes), len(order)


# ---------------------------------------------------------------------------------------
# (b) the same question one level up: reachable states of find_all (several concurrent attempts)
# ---------------------------------------------------------------------------------------

def run_find_all(expr, history):
    """real find_all over the token history with every Pattern it creates observed.
    returns {"ambiguous": None|str, "state": canonical state of the live attempts, "live": n}"""
    from copy import deepcopy

    from codelimit.common.gsm import matcher
    from codelimit.common.gsm.Pattern import Pattern as RealPattern

    created = []
    problem = []

    class Tracked(RealPattern):
        def __init__(self, start, automata, *a, **kw):
            super().__init__(start, automata, *a, **kw)
            self.fed = 0
            self.ok = True
            created.append(self)

        def consume(self, item):
            # independent of how consume resolves conflicts: count the transitions that accept
            n = 0
            for pred, _t in self.state.transition:
                probe = deepcopy(self.predicate_map.get(id(pred), pred))
                if probe.accept(item):
                    n += 1
            if n > 1:
                problem.append(f"{n} transitions accept {item.value!r} for the attempt started at {self.start}")
            r = super().consume(item)
            self.fed += 1
            self.ok = bool(r)
            return r

    toks = [tok(c, i) for i, c in enumerate(history)]
    real = matcher.Pattern
    matcher.Pattern = Tracked
    try:
        try:
            matches = matcher.find_all(expr, toks)
        except ValueError as e:
            if "Multiple transitions" not in str(e):
                raise
            return {"ambiguous": str(e), "state": None, "live": 0}
    finally:
        matcher.Pattern = real
    if not created:
        raise core.HarnessError("seam matcher.Pattern never hit")
    if problem:
        return {"ambiguous": problem[0], "state": None, "live": 0}
    n = len(toks)
    live = [p for p in created if p.ok and p.fed == n - p.start and p.fed > 0]
    order, preds = dfa_index(created[0].automata)
    done_end = max([m.end for m in matches if not (m in live and m.end == n)] or [0])
    st = []
    for p in sorted(live, key=lambda q: q.start):
        ps = tuple(sorted((preds.get(k, -1), snapshot(v)) for k, v in p.predicate_map.items()))
        st.append((order[id(p.state)], ps, p.start < done_end))
    return {"ambiguous": None, "state": tuple(st), "live": len(live)}


def natural_classes(expr):
    return [c for c in token_classes(expr) if c.split(":")[0] in ("id", "p", "kw", "op") and not (c.startswith("id:") and not c.endswith("other"))][:14]


def explore_find_all(expr, agg, label, max_live, max_len):
    classes = []
    pv = predicate_values(expr)
    for c in token_classes(expr):
        kind, _, val = c.partition(":")
        natural = (kind == "id" and val.endswith("other")) or c in ("p:(", "p:)") or (kind, val) in {("kw" if a == "Keyword" else "op" if a == "Operator" else "p", b) for a, b in pv} \
                  or c in ("p:\x00other", "kw:\x00other")
        if natural and c not in classes:
            classes.append(c)
    r0 = run_find_all(expr, [classes[0]])
    seen = {(): []}
    frontier = [[]]
    found = []
    capped = 0
    depth = 0
    while frontier and depth < max_len:
        depth += 1
        nxt = []
        for hist in frontier:
            for c in classes:
                h = hist + [c]
                r = run_find_all(expr, h)
                agg.transitions += 1
                if r["ambiguous"]:
                    found.append((h, r["ambiguous"]))
                    continue
                if r["live"] > max_live:
                    capped += 1
                    continue
                if r["state"] not in seen:
                    seen[r["state"]] = h
                    nxt.append(h)
        frontier = nxt
    for k in seen:
        agg.state([label, "find_all", repr(k)])
    return found, len(seen), len(classes), bool(frontier), capped


def validate_depth_cap(agg):
    """Balanced must not distinguish depths >= DEPTH_CAP"""
    from codelimit.common.token_matching.predicate.Balanced import Balanced

    bad = []
    for code in [f"{k}:{v}" for k in KINDS for v in ("(", ")", "x")]:
        ref = None
        for depth in range(DEPTH_CAP, DEPTH_CAP + 6):
            b = Balanced("(", ")")
            b.depth = depth
            r = b.accept(tok(code))
            obs = (r, b.depth - depth)
            if ref is None:
                ref = obs
            elif obs != ref:
                bad.append((code, depth, obs, ref))
    return bad


LEXEME = {"id": "x", "lit": "1"}


def source_witness(lang_name, history):
    """try to turn an abstract token history into source text that makes scan_file raise"""
    from pygments.lexers import get_lexer_by_name

    from codelimit.common.lexer_utils import lex
    from codelimit.common.Scanner import scan_file
    from codelimit.languages import Languages

    words = []
    for code in history:
        kind, _, v = code.partition(":")
        if v.startswith("\x00"):
            v = {"kw": "if", "id": "x", "p": ";", "op": "+", "lit": "1", "txt": "x"}[kind]
        words.append(v)
    text = " ".join(words)
    alias = {"C#": "csharp", "C++": "cpp"}.get(lang_name, lang_name.lower())
    try:
        toks = lex(get_lexer_by_name(alias), text, False)
        scan_file(toks, Languages.by_name[lang_name])
    except ValueError as e:
        if "Multiple transitions" in str(e):
            return text
    except Exception:
        return None
    return None


def check_language(lang, agg):
    out = []
    cap = capture()[lang]
    for idx, (role, expr) in enumerate(cap):
        label = f"{lang}[{idx}:{role}]"
        found, nstates, nclasses, ndfa = explore_expression(expr, agg, label)
        agg.extra[f"configs {label}"] = nstates
        agg.extra[f"token_classes {label}"] = nclasses
        case = {"language": lang, "expr": idx, "role": role}
        agg.case(case, nstates > 1, f"{ndfa} dfa states/{nstates} configs/{len(found)} ambiguous", sample=True)
        by_tok = {}
        for h in found:
            by_tok.setdefault(h[-1], h)
        for t, h in sorted(by_tok.items()):
            w = source_witness(lang, h)
            out.append(("ambiguous-transition", {"language": lang, "role": role, "token": t.replace("\x00", "")},
                        dict(case, history=h),
                        f"{label}: after tokens {h[:-1]} the token {t!r} is accepted by more than one transition"
                        + (f"; source witness: {w!r} makes scan_file raise" if w else "; no source witness found by direct rendering")))
    return out


def _block(block, agg):
    if isinstance(block, tuple):
        _, lang, idx, max_live, max_len = block
        role, expr = capture()[lang][idx]
        label = f"{lang}[{idx}:{role}]"
        found, nstates, nclasses, open_frontier, capped = explore_find_all(expr, agg, label, max_live, max_len)
        case = {"language": lang, "expr": idx, "role": role, "level": "find_all"}
        agg.case(case, nstates > 1, f"find_all: {nstates} states/{len(found)} ambiguous/{'bounded' if open_frontier else 'fixpoint'}", sample=True)
        agg.extra[f"find_all_states {label}"] = nstates
        agg.extra[f"find_all_histories_with_more_live_attempts_than_bound {label}"] = capped
        if open_frontier:
            agg.notes.add(f"find_all exploration of {label} stopped at the history-length bound")
        seen_tok = set()
        for h, why in found:
            if h[-1] in seen_tok:
                continue
            seen_tok.add(h[-1])
            w = source_witness(lang, h)
            agg.violation("ambiguous-transition", {"language": lang, "role": role, "token": h[-1].replace("\x00", ""), "level": "find_all"}, dict(case, history=h),
                          f"{label}: find_all over tokens {h}: {why}" + (f"; source witness {w!r}" if w else ""))
        return
    for kind, sig, case, detail in check_language(block, agg):
        agg.violation(kind, sig, case, detail)


def replay(case):
    cap = capture()[case["language"]]
    role, expr = cap[case["expr"]]
    from codelimit.common.gsm.Expression import expression_to_nfa, nfa_to_dfa

    if case.get("level") == "find_all":
        r = run_find_all(expr, case["history"])
        if r["ambiguous"]:
            return [{"kind": "ambiguous-transition", "sig": {"language": case["language"], "role": role, "token": case["history"][-1].replace("\x00", ""), "level": "find_all"},
                     "detail": f"find_all over {case['history']}: {r['ambiguous']}"}]
        return []
    dfa = build_dfa(expr)
    base, alive, _ = run_history(dfa, case["history"][:-1])
    many = alive and count_accepting(base, tok(case["history"][-1], len(case["history"]) - 1)) > 1
    _, _, amb = run_history(dfa, case["history"])
    if amb is not None or many:
        return [{"kind": "ambiguous-transition",
                 "sig": {"language": case["language"], "role": role, "token": case["history"][-1].replace("\x00", "")},
                 "detail": f"history {case['history']} raises 'Multiple transitions found!'"}]
    return []


def run(ctx: core.Ctx):
    from codelimit.languages import Languages

    bad = validate_depth_cap(ctx.agg)
    if bad:
        raise core.HarnessError(f"depth abstraction invalid for Balanced: {bad[:3]}")
    ctx.bounds = {"depth_cap": DEPTH_CAP, "token_kinds": KINDS, "languages": sorted(capture())}
    ctx.rule = ("per language, every expression passed to find_all/starts_with by extract_headers (captured from the working tree); states = "
                "distinct reachable configurations (DFA state index, snapshot of each predicate copy, Balanced depth capped at "
                f"{DEPTH_CAP}); transitions = (configuration, token class) probes executed on a fresh real Pattern by history replay; "
                "token classes = 6 pygments kinds x (every string a predicate compares with + '(' + ')' + one other value). "
                "A case = one expression; non-trivial = more than one reachable configuration. Complete (fixpoint) in both tiers.")
    ctx.assumptions = ["predicates observe only token kind and value", f"Balanced behaves identically for depth >= {DEPTH_CAP} (validated at start)"]
    blocks = sorted(capture())
    max_live, max_len = ctx.pick((3, 12), (3, 15))
    ctx.bounds["find_all_level"] = {"max_live_attempts": max_live, "max_history_length": max_len}
    for lang, exprs in capture().items():
        for idx, (role, _e) in enumerate(exprs):
            if role == "header":
                blocks.append(("find_all", lang, idx, max_live, max_len))
    ctx.run_blocks(_block, blocks)
    if any("stopped at the history-length bound" in n for n in ctx.agg.notes):
        ctx.caps.append("find_all-level exploration reached the history-length bound before a fixpoint for some expressions (see notes in counters)")
