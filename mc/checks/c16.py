"""C16 - token positions are faithful to the source text.

E-prod: *all* texts up to a length bound over a boundary-hunting alphabet, for every supported
language, through the real lex(lexer, text, filter_comments) with both flag values; ground truth
for the token stream is raw Pygments, positions are recomputed with independent arithmetic.
"""
from __future__ import annotations

import itertools

from mc import core

ID = "C16"
LEVEL = "exploration"
TECHNIQUE = "exhaustive enumeration of all texts up to a length bound over a 12-letter alphabet x 7 lexers x 2 flags against raw Pygments offsets"
LEVEL_TEXT = ("Every text up to the length bound over {a, space, newline, tab, (, \", ', #, /, *, backslash, e-acute} is lexed by the real lex() "
              "for each language and both comment flags; the kept tokens must be exactly Pygments' non-empty, non-whitespace (and, if "
              "requested, non-comment) tokens in order, each at the independently computed 1-based line/column of its offset, strictly "
              "increasing and non-overlapping. Exhaustive within the bound; plus a fixed set of longer multi-line programs.")
LEVEL_NOTE = "Trusted: Pygments 2.21 as definition of 'token'. Bound: text length (evidence.bounds). '\\r' is not in the alphabet (files are read with universal newlines)."

FILENAMES = {"C": "x.c", "C++": "x.cpp", "C#": "x.cs", "Java": "x.java", "JavaScript": "x.js", "TypeScript": "x.ts", "Python": "x.py"}
# "\r", form feed and U+2028 are line boundaries for str.splitlines() but NOT for the tool (lines are "\n"-separated)
ALPHABET = ["a", " ", "\n", "\t", "(", '"', "'", "#", "/", "*", "\\", "é", "\r", "\x0c", "\u2028"]

# a second, small alphabet of identifier characters that are NOT stable under Unicode normalisation (combining accent, Ohm and
# Angstrom signs, ligature, micro sign, full-width letter): the token text must be the text found in the file, not a normal form of it
UNI_ALPHABET = ["a", "\u0301", "\u2126", "\u212b", "\ufb01", "\u00b5", "\uff41", " ", "\n", "("]

EXTRA_TEXTS = [
    "x = 1\x0cy = 2\n\x0c\ndef f():\n    return 1\x0b\n",
    "a\x85b\x1cc\x1dd\x1ee\u2029f\n(g)\n",
    "x = \"\"\"a\n\n",
    "#define X \\\n\n",

    "def f():\n    \"\"\"doc\n    more\n    \"\"\"\n    return 1\n",
    "function f() {\n  x = 1\n// c\n  y();\n}\n",
    "/* a\n b */ int f(void) {\n\treturn 0; // t\n}\n",
    "x = `a\n${b}\n`\n\n\nfoo(1,\n 2)\n",
    "s = 'é\\\n b'  # c\nt = 1\n",
    "\n\n\na\n\n",
    "a",
    "",
    "#nocl\n//nocl\n/*nocl*/\n",
]


def lexer_for(lang):
    from pygments.lexers import get_lexer_for_filename

    return get_lexer_for_filename(FILENAMES[lang])


def eval_text(lang, lexer, text, filter_comments, pre=None):
    from pygments.token import Comment, Text

    from codelimit.common.lexer_utils import lex
    from codelimit.common.source_utils import location_to_index

    out = []
    raw = list(lexer.get_tokens_unprocessed(text))
    want = []
    for off, ty, val in raw:
        if val == "":
            continue
        if ty in Text and val.isspace():
            continue
        if filter_comments and ty in Comment:
            continue
        line = text.count("\n", 0, off) + 1
        col = off - (text.rfind("\n", 0, off) + 1) + 1
        want.append((line, col, str(ty), val, off))
    try:
        got_tokens = pre if pre is not None else lex(lexer, text, filter_comments)
    except Exception as e:  # noqa
        return None, [("lex-raised", {"error": type(e).__name__}, repr(e))]
    got = [(t.location.line, t.location.column, str(t.token_type), t.value) for t in got_tokens]
    sig = {"language": lang}
    if [g[2:] for g in got] != [w[2:4] for w in want]:
        kept_empty = any(g[3] == "" for g in got)
        kept_ws = any(g[3] != "" and g[3].isspace() and g[2].startswith("Token.Text") for g in got)
        kept_comment = filter_comments and any("Comment" in g[2] for g in got)
        what = "empty-token-kept" if kept_empty else "whitespace-kept" if kept_ws else "comment-kept" if kept_comment else "token-stream-differs"
        out.append(("kept-tokens-wrong", dict(sig, what=what), f"kept {[g[3] for g in got]!r}, expected {[w[3] for w in want]!r}"))
    else:
        for g, w in zip(got, want):
            if g[:2] != w[:2]:
                out.append(("token-position-wrong", sig, f"token {g[3]!r} at offset {w[4]}: reported {g[:2]}, expected {w[:2]}"))
                break
    # intrinsic checks on what was kept (independent of the expected list)
    prev_end = -1
    lines = text.split("\n")
    for t in got_tokens:
        ln, col = t.location.line, t.location.column
        if ln < 1 or col < 1 or ln > len(lines):
            out.append(("token-position-out-of-range", sig, f"{t.value!r} at {(ln, col)}"))
            break
        off = sum(len(l) + 1 for l in lines[: ln - 1]) + col - 1
        if text[off: off + len(t.value)] != t.value:
            out.append(("text-at-position-differs", sig, f"{t.value!r} reported at {(ln, col)} but text there is {text[off: off + len(t.value)]!r}"))
            break
        if location_to_index(text, t.location) != off:
            out.append(("location-to-index-disagrees", sig, f"{(ln, col)} -> {location_to_index(text, t.location)} expected {off}"))
            break
        if off < prev_end or (off == prev_end and len(t.value) == 0) or len(t.value) == 0:
            out.append(("tokens-not-strictly-increasing", dict(sig, zero_length=len(t.value) == 0), f"{t.value!r} at offset {off} after a token ending at {prev_end}"))
            break
        prev_end = off + len(t.value)
    return len(got), out


def texts(maxlen, alphabet):
    yield ""
    for n in range(1, maxlen + 1):
        for tup in itertools.product(alphabet, repeat=n):
            yield "".join(tup)


def long_texts(length, count):
    """different texts of exactly the same (large) length whose newlines sit at different offsets; generated one after
    the other so that each is freed before the next is built - the pattern of a scan reading file after file. A memo keyed
    on object identity and length would serve one text the line table of another."""
    for k in range(count):
        width = 7 + (k * 5) % 23  # line width varies with k
        line = ("v%d = f(%d); " % (k, k))
        body = []
        total = 0
        i = 0
        while total < length:
            piece = (line * 4)[: width + (i * (k + 3)) % 11] + "\n"
            body.append(piece)
            total += len(piece)
            i += 1
        text = "".join(body)[:length - 1] + "\n"
        yield text


def _block(block, agg):
    lang, n, alphabet, first = block
    lexer = lexer_for(lang)
    if first == "LONG":
        # one very long line (a minified bundle, a generated table): columns beyond 2**16
        unit = "v = f(1, 2); "
        wide = unit * (70_000 // len(unit)) + "\nw = 2\n"
        for fc in (False, True):
            cnt, viol = eval_text(lang, lexer, wide, fc)
            agg.case({"language": lang, "wide_line": len(wide), "filter_comments": fc}, True, "wide", sample=False)
            for k, sig, d in viol:
                agg.violation(k, dict(sig, family="very-long-line"), {"language": lang, "long": [0, n]}, d)
        for length in (2048, 3000, 4096):
            gen = long_texts(length, n)
            while True:
                text = next(gen, None)
                if text is None:
                    break
                cnt, viol = eval_text(lang, lexer, text, False)
                case = {"language": lang, "text": f"<long text #{length}>", "filter_comments": False}
                agg.case({"language": lang, "long": length, "digest": core.digest(text)}, True, "long", sample=False)
                for k, sig, d in viol:
                    agg.violation(k, dict(sig, family="long-equal-length-texts"), {"language": lang, "long": [length, n]}, d)
                del text
        return
    if first == "UNI":
        it = list(texts(n, UNI_ALPHABET))
    elif first is None:
        from mc.gen import wild
        # hand-picked texts + every non-canonical snippet of the language (disabled preprocessor regions, templates, decorators ...)
        it = list(EXTRA_TEXTS) + [t for _n, t in wild.snippets(lang)]
    else:
        it = (first + "".join(t) for k in range(0, n) for t in itertools.product(alphabet, repeat=k))
    if first is None:
        # the same texts once more, DEFERRED: all of them are lexed first and only then are the tokens of each looked at (a token
        # list must stay valid while other texts are lexed - a scan holds the tokens of one file while helpers lex others)
        from codelimit.common.lexer_utils import lex

        held = []
        for text in it:
            try:
                held.append((text, lex(lexer, text, False)))
            except Exception:  # noqa - reported by the immediate pass below
                pass
        for text, toks in held:
            cnt, viol = eval_text(lang, lexer, text, False, pre=toks)
            agg.case({"language": lang, "text": text, "filter_comments": False, "deferred": True}, bool(cnt), cnt, sample=False)
            for k, sig, d in viol:
                agg.violation(k, dict(sig, deferred=True), {"language": lang, "deferred_block": True}, d)
    for text in it:
        for fc in (True, False):
            cnt, viol = eval_text(lang, lexer, text, fc)
            case = {"language": lang, "text": text, "filter_comments": fc}
            agg.case(case, bool(cnt) and "\n" in text, cnt, sample=bool(cnt) and cnt >= 3 and "\n" in text)
            for k, sig, d in viol:
                agg.violation(k, sig, case, d)


def replay(case):
    if case.get("deferred_block"):
        agg = core.Agg()
        _block((case["language"], 0, ALPHABET, None), agg)
        return [r for lst in agg.violations.values() for _, r in lst if r.get("sig", {}).get("deferred")][:3]
    if "long" in case:
        agg = core.Agg()
        _block((case["language"], case["long"][1], None, "LONG"), agg)
        return [r for lst in agg.violations.values() for _, r in lst]
    _, viol = eval_text(case["language"], lexer_for(case["language"]), case["text"], case["filter_comments"])
    return [{"kind": k, "sig": s, "detail": d} for k, s, d in viol]


def run(ctx: core.Ctx):
    n = ctx.pick(4, 6)
    alphabet = ALPHABET if n <= 4 else [a for a in ALPHABET if a not in ("\t", "é", "\r", "\u2028", "*")]
    ctx.bounds = {"max_text_length": n, "alphabet": alphabet, "languages": list(FILENAMES), "extra_texts": len(EXTRA_TEXTS),
                  "unicode_identifier_family": {"alphabet": UNI_ALPHABET, "max_text_length": ctx.pick(3, 4)}}
    if n > 5:
        ctx.bounds["also"] = {"max_text_length": 5, "alphabet": ALPHABET}
    ctx.rule = ("case = (language, text, filter_comments): every text of length <= max_text_length over the alphabet (and for the thorough tier "
                "additionally every text of length <= 5 over the full 12-letter alphabet), both flags, all 7 lexers. Non-trivial: at least one "
                "kept token and a newline in the text. Outcome = number of kept tokens.")
    blocks = []
    for lang in FILENAMES:
        blocks.append((lang, 0, alphabet, None))
        blocks.append((lang, ctx.pick(30, 120), None, "LONG"))
        blocks.append((lang, ctx.pick(3, 4), None, "UNI"))
        for first in alphabet:
            blocks.append((lang, n, alphabet, first))
        if n > 5:
            for first in ALPHABET:
                blocks.append((lang, 5, ALPHABET, first))
    ctx.run_blocks(_block, blocks)
