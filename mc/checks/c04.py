"""C04 - comments, blank lines and whitespace never change what is measured.

Metamorphic E-prod: (file x insertion set). Files = canonical generated programs + a vendored
corpus of real sources (corpus/<ext>/). Insertion points = every line boundary that raw Pygments
says is not crossed by a multi-line token and does not follow a backslash continuation.
Insertion kinds = blank / spaces-only / tab-only line, comment-only line in every comment style
(column 1 and indented), trailing comment in every style, trailing spaces. Every single
insertion on every file, every pair on generated programs, and one kind at every point at once.
"""
from __future__ import annotations

import itertools
from pathlib import Path

from mc import core
from mc.gen import canon, oracle, programs

ID = "C04"
LEVEL = "exploration"
TECHNIQUE = "metamorphic exhaustive enumeration: every token-safe insertion point x every comment/blank kind (singles, pairs, all-at-once) on generated programs and a vendored real-world corpus"
LEVEL_TEXT = ("For every file and every token-safe line boundary, each insertion kind is applied (single insertions on all files, all pairs on "
              "generated programs, one kind at every boundary at once on all files) and the real analysis of the transformed text must "
              "report the same functions, names, order, lengths and columns with every line number shifted by exactly the number of lines "
              "inserted above it. Exhaustive within the file set; a variant whose raw Pygments code-token stream differs from the original "
              "(the insertion was not between tokens after all) is counted and skipped, never judged.")
LEVEL_NOTE = "Trusted: Pygments token stream as the definition of 'between the tokens'. Corpus = corpus/<ext>/ (copied from open-source packages on the image). Comment kinds include a 70 kB comment, a comment mentioning the marker later in its text, two-line trailing comments and texts with ( ) { } ' \" ; ,; BOM-prefixed files; a file-level pass through scan_path under 12 extensions."

CORPUS = core.VERIF / "corpus"


WIDE = 70_000  # one very wide comment (an inlined source map, a generated banner): wider than any 16-bit column
HEAVY = {"wide-line", "trail-wide", "doc-block-120"}  # not part of the all-at-once variants (a file of nothing but 70 kB lines)


def kinds(lang):
    """(id, mode, text)  mode: 'line' = new line inserted, 'trail' = appended to the line before the boundary"""
    ks = [("blank", "line", ""), ("spaces", "line", "      "), ("tab", "line", "\t")]
    if lang == "Python":
        ks += [("hash0", "line", "# inserted comment ( { it's \"quoted\"; ) ,"), ("hash-ind", "line", "        # inserted comment } )"),
               ("trail-hash", "trail", "  # trailing { comment"), ("trail-spaces", "trail", "   "),
               # a comment that MENTIONS the suppression marker later in its text does not start with it
               ("trail-mention", "trail", "  # was marked nocl before the refactoring"),
               ("wide-line", "line", "# sourceMappingURL=data:application/json;base64," + "QUJD" * (WIDE // 4)),
               ("trail-wide", "trail", "  # " + "w" * WIDE),
               # 120 documentation lines at ONE place (between two parameters, above a statement ...)
               ("doc-block-120", "line", "\n".join(["        # documentation line"] * 120))]
        return ks
    ks += [("slash0", "line", "// inserted comment ( { the caller's \"buffer\"; ) ,"), ("slash-ind", "line", "        // inserted } ) comment"),
           ("block0", "line", "/* inserted { ( comment */"), ("block-ind", "line", "    /* length (in bytes); don't \"quote\" } */"),
           ("trail-slash", "trail", " // trailing { comment"), ("trail-block", "trail", " /* trailing ( */"), ("trail-spaces", "trail", "   "),
           ("trail-mention", "trail", " // was marked nocl before the refactoring"), ("trail-mention-block", "trail", " /* not a nocl marker */"),
           ("trail-block-2lines", "trail", " /* trailing comment that\n      continues on the next line */"),
           ("wide-line", "line", "//# sourceMappingURL=data:application/json;base64," + "QUJD" * (WIDE // 4)),
           ("trail-wide", "trail", " /* " + "w" * WIDE + " */"),
           ("doc-block-120", "line", "\n".join(["        // documentation line"] * 120))]
    return ks


def safe_boundaries(lang, text):
    """boundaries b in 0..nlines: insertion before line b+1 (b = nlines: after the last line).
    returns (line_safe: set of b where a new line may be inserted, trail_safe: set of b>=1 where text may be appended to line b)"""
    lines = text.split("\n")
    if lines and lines[-1] == "":
        lines = lines[:-1]
    n = len(lines)
    starts = oracle.line_starts(text)
    crossed = set()
    inside_line_end = set()
    for off, ty, val in oracle.lexer(lang).get_tokens_unprocessed(text):
        if "\n" not in val or val.strip() == "":
            continue
        # newline characters strictly inside the token (not its last char) are crossed boundaries
        for i, c in enumerate(val):
            if c == "\n":
                ln = oracle.off_to_line(starts, off + i)  # the line that this newline terminates
                if i < len(val) - 1:
                    crossed.add(ln)
                inside_line_end.add(ln)
    line_safe, trail_safe = set(), set()
    for b in range(0, n + 1):
        if b in crossed:
            continue
        if b >= 1 and lines[b - 1].rstrip().endswith("\\"):
            continue
        line_safe.add(b)
        if b >= 1 and b not in inside_line_end and lines[b - 1].strip() != "":
            trail_safe.add(b)
    return lines, line_safe, trail_safe


def apply(lines, inserts):
    """inserts: list of (b, mode, text). returns (new text, sorted list of boundaries where a LINE was inserted)"""
    out = list(lines)
    new_lines = []
    for b, mode, t, *_ in sorted(inserts, key=lambda x: -x[0]):
        if mode == "trail":
            out[b - 1] = out[b - 1] + t
            new_lines += [b] * t.count("\n")  # a trailing comment that runs over several lines adds lines below line b
        else:
            out.insert(b, t)
            new_lines += [b] * (1 + t.count("\n"))  # an inserted block of several lines
    return "\n".join(out) + "\n", sorted(new_lines)


def shifted(ms0, new_lines):
    res = []
    for name, (sl, sc), (el, ec), v in ms0:
        ds = sum(1 for b in new_lines if b < sl)
        de = sum(1 for b in new_lines if b < el)
        res.append((name, (sl + ds, sc), (el + de, ec), v))
    return res


def code_stream(lang, text):
    """the code tokens as (top-level token class, text): an insertion is 'between the tokens' when this stream is unchanged. The lexer's
    finer tags (Name.Function vs Name ...) are NOT part of it: they may legitimately depend on context the lexer guesses from"""
    return [(str(ty).split(".")[1] if "." in str(ty) else str(ty), val) for _, ty, val in oracle.raw_code_tokens(lang, text)]


class FileCtx:
    def __init__(self, lang, text):
        self.lang, self.text = lang, text if text.endswith("\n") else text + "\n"
        self.ms0 = oracle.as_tuples(oracle.scan_text(lang, self.text))
        self.stream0 = code_stream(lang, self.text)
        self.lines, self.line_safe, self.trail_safe = safe_boundaries(lang, self.text)

    def check(self, inserts):
        text2, new_lines = apply(self.lines, inserts)
        if code_stream(self.lang, text2) != self.stream0:
            return "not-token-safe", None
        try:
            with core.time_limit(120):
                ms1 = oracle.as_tuples(oracle.scan_text(self.lang, text2))
        except Exception as e:  # noqa
            return "raised", ("analysis-raises-after-insertion", {"language": self.lang, "error": type(e).__name__}, repr(e))
        want = shifted(self.ms0, new_lines)
        if ms1 == want:
            return "same", None
        names0, names1 = [m[0] for m in want], [m[0] for m in ms1]
        kinds_used = sorted({i[3] for i in inserts})
        sig = {"language": self.lang, "kind": kinds_used[0] if len(kinds_used) == 1 else "mixed"}
        if names0 != names1:
            return "diff", ("functions-changed", sig, f"before {names0}\nafter  {names1}")
        for a, b in zip(want, ms1):
            if a != b:
                what = "length" if a[3] != b[3] else ("line-shift" if (a[1][0], a[2][0]) != (b[1][0], b[2][0]) else "column")
                return "diff", ("measurement-changed", dict(sig, what=what), f"expected {a}, got {b}")
        return "diff", ("functions-changed", sig, "")


def enum_single(fc: FileCtx, kind_ids=None):
    for kid, mode, t in kinds(fc.lang):
        if kind_ids and kid not in kind_ids:
            continue
        for b in sorted(fc.line_safe if mode == "line" else fc.trail_safe):
            yield [(b, mode, t, kid)]


def enum_all_at_once(fc: FileCtx):
    for kid, mode, t in kinds(fc.lang):
        if kid in HEAVY:
            continue
        pts = sorted(fc.line_safe if mode == "line" else fc.trail_safe)
        if pts:
            yield [(b, mode, t, kid) for b in pts]


def enum_pairs(fc: FileCtx, kind_ids=None):
    singles = [s[0] for s in enum_single(fc, kind_ids) if s[0][3] not in HEAVY]  # the 70 kB comments take part as single insertions only
    for a, b in itertools.combinations(singles, 2):
        if a[1] == "trail" and b[1] == "trail" and a[0] == b[0]:
            continue
        yield [a, b]


def load_file(desc):
    if desc["src"] == "text":
        return desc["text"]
    if desc["src"] == "wild":
        from mc.gen import wild

        return dict(wild.snippets(desc["lang"]))[desc["name"]]
    if desc["src"] == "corpus":
        p = CORPUS / canon.EXT[desc["lang"]] / desc["name"]
        return p.read_text(encoding="utf-8")
    return canon.render(desc["spec"])[0]


def run_file(desc, modes, agg, kind_ids=None):
    lang = desc["lang"]
    try:
        fc = FileCtx(lang, load_file(desc))
    except Exception as e:  # noqa
        agg.extra["baseline_analysis_raised(see C03)"] += 1
        return
    gens = []
    if "single" in modes:
        gens.append(enum_single(fc, kind_ids))
    if "all" in modes:
        gens.append(enum_all_at_once(fc))
    if "pairs" in modes:
        gens.append(enum_pairs(fc, kind_ids))
    for inserts in itertools.chain(*gens):
        oc, v = fc.check(inserts)
        short = {"file": desc.get("name") or desc.get("id"), "lang": lang, "inserts": [[b, k] for b, m, t, k in inserts][:6], "n": len(inserts)}
        agg.case(short, bool(fc.ms0) and oc != "not-token-safe", oc, sample=len(inserts) == 2)
        agg.transitions += 1
        if oc == "not-token-safe":
            agg.extra["skipped_not_token_safe"] += 1
        if v:
            agg.violation(v[0], v[1], dict(desc, inserts=[[b, m, t, k] for b, m, t, k in inserts]), v[2])


PAYLOADS = ["@code x = 1; @endcode @param[in] p [in out]", "-*- coding: latin-1 -*- vim: set ft=objc :", "<?php echo 1; ?> <%= x %>",
            "#include <objc/objc.h> #import \"a.h\" @interface X @end", "#!/usr/bin/env perl", "TODO(x): {{{ }}} ]]> */ /* <!-- -->"]


def eval_files_on_disk(lang, ext):
    """the same metamorphic relation at FILE level: originals and commented variants are written to one real tree and
    scanned with scan_path (language detection, decoding and per-file bookkeeping included). The inserted comments carry text
    that content-sniffing heuristics react to."""
    from pathlib import Path

    from codelimit.common.Scanner import scan_path
    from mc import harness

    out = []
    sources = {f"gen_{k.replace('-', '_')}": canon.render(v)[0] for k, v in programs.skeletons(lang).items() if k in ("two", "func-global-func", "nested-middle")}
    files, plan = {}, []
    lead = "#" if lang == "Python" else "//"
    for name, text in sources.items():
        fc = FileCtx(lang, text)
        files[f"orig/{name}.{ext}"] = fc.text
        variants = []
        for pi, payload in enumerate(PAYLOADS):
            if "*/" in payload and lang != "Python":
                payload_line = payload.replace("*/", "* /")
            else:
                payload_line = payload
            line = f"{lead} {payload_line}"
            variants.append((f"top{pi}", [(0, "line", line, "payload")]))
            variants.append((f"all{pi}", [(b, "line", line, "payload") for b in sorted(fc.line_safe)]))
            if lang != "Python":
                block = "/* " + payload_line + " */"
                variants.append((f"blk{pi}", [(b, "line", block, "payload-block") for b in sorted(fc.line_safe)][:3]))
        for vid, inserts in variants:
            text2, new_lines = apply(fc.lines, inserts)
            if code_stream(lang, text2) != fc.stream0:
                continue
            rel = f"{vid}/{name}.{ext}"
            files[rel] = text2
            plan.append((rel, f"orig/{name}.{ext}", new_lines, vid))
    with harness.temp_tree(files) as root:
        harness.reset_globals()
        cb = scan_path(Path(root))
        got = {rel: oracle.as_tuples(e.measurements()) for rel, e in cb.files.items()}
    for rel, orig, new_lines, vid in plan:
        if orig not in got:
            out.append(("file-missing-from-scan", {"language": lang, "ext": ext}, orig, f"{orig} not in the scan"))
            continue
        want = shifted(got[orig], new_lines)
        if rel not in got:
            out.append(("file-dropped-after-comment-insertion", {"language": lang, "ext": ext}, rel, f"{rel}: the commented copy is not reported at all ({orig} is)"))
        elif got[rel] != want:
            out.append(("measurement-changed", {"language": lang, "kind": "payload-comment", "what": "file-level"}, rel, f"{rel}: {got[rel][:2]} expected {want[:2]}"))
    return len(plan), out


def _block(block, agg):
    if block[0] == "FILES":
        _, lang, ext = block
        n, viol = eval_files_on_disk(lang, ext)
        agg.case({"file_level": lang, "ext": ext, "variants": n}, n > 0, f"file-level {n}", sample=False)
        agg.transitions += 1
        for k, sig, rel, d in viol:
            agg.violation(k, sig, {"src": "file-level", "lang": lang, "ext": ext, "file": rel}, d)
        return
    desc, modes, kind_ids = block
    run_file(desc, modes, agg, kind_ids)


def replay(case):
    if case.get("src") == "file-level":
        _, viol = eval_files_on_disk(case["lang"], case["ext"])
        return [{"kind": k, "sig": s, "detail": d} for k, s, rel, d in viol]
    fc = FileCtx(case["lang"], load_file(case))
    oc, v = fc.check([tuple(i) for i in case["inserts"]])
    return [{"kind": v[0], "sig": v[1], "detail": v[2]}] if v else []


def generated(lang, thorough):
    out = []
    for name, spec in programs.skeletons(lang).items():
        out.append({"src": "gen", "lang": lang, "id": f"skeleton:{name}", "spec": spec})
    rich_kinds = [k for k in ("string", "trailing", "comment", "mblockcomment", "mstring", "docstring", "template", "ifelse", "switch", "try", programs.anon_kind(lang))
                  if k in canon.statements(lang)]
    body = [programs.S(k) for k in rich_kinds]
    out.append({"src": "gen", "lang": lang, "id": "rich", "spec": {"lang": lang, "items": [programs.func("f0", body), {"k": "comment", "v": "mblock"}, programs.func("f1", [programs.S("simple")])]}})
    for st in canon.STYLES[lang]:
        out.append({"src": "gen", "lang": lang, "id": f"style:{st}", "spec": {"lang": lang, "items": [programs.func("f0", [programs.S("simple"), programs.S("if")], st)]}})
    # files that already carry suppression markers: one on its own line directly above a header (suppresses nothing), one
    # trailing a function's name line (suppresses it); neighbouring insertions must not change either
    text, funcs = canon.render(programs.skeletons(lang)["two"])
    lines = text.split("\n")
    lead = "#" if lang == "Python" else "//"
    f0, f1 = funcs[0], funcs[1]
    lines[f0["start"][0] - 1] += f"  {lead} nocl: measured elsewhere"
    ind = len(lines[f1["start"][0] - 1]) - len(lines[f1["start"][0] - 1].lstrip())
    lines.insert(f1["start"][0] - 1, " " * ind + f"{lead} nocl (own line: does not apply to the next function)")
    out.append({"src": "text", "lang": lang, "id": "with-nocl-markers", "text": "\n".join(lines)})
    # files that start with a byte order mark (Windows editors): one character that is on line 1 but is not code
    for sk in ("two", "func-global-func"):
        out.append({"src": "text", "lang": lang, "id": f"with-bom:{sk}", "text": "\ufeff" + canon.render(programs.skeletons(lang)[sk])[0]})
    from mc.gen import wild

    for name, _t in wild.snippets(lang):
        out.append({"src": "wild", "lang": lang, "id": f"wild:{name}", "name": name})
    return out


def run(ctx: core.Ctx):
    thorough = not ctx.quick
    blocks = []
    corpus_n = {}
    for lang in canon.LANGS:
        for d in generated(lang, thorough):
            blocks.append((d, ("single", "all", "pairs") if thorough else ("single", "all"), None))
            if not thorough and d["id"] in ("skeleton:nested-last", "skeleton:two"):
                blocks.append((d, ("pairs",), ["blank", "hash-ind", "slash-ind", "trail-hash", "trail-block"]))
        files = sorted(p.name for p in (CORPUS / canon.EXT[lang]).glob("*"))
        if not files:
            raise core.HarnessError(f"corpus for {lang} missing")
        use = files if thorough else files[:2]
        corpus_n[lang] = len(use)
        for name in use:
            d = {"src": "corpus", "lang": lang, "name": name}
            if thorough:
                for kid, _, _ in kinds(lang):
                    blocks.append((d, ("single",), [kid]))
                blocks.append((d, ("all",), None))
            else:
                for kid in ["blank", "hash-ind", "slash-ind", "trail-block", "trail-hash"]:
                    if any(k[0] == kid for k in kinds(lang)):
                        blocks.append((d, ("single",), [kid]))
                blocks.append((d, ("all",), None))
    ctx.bounds = {"corpus_files_per_language": corpus_n, "kinds": {l: [k[0] for k in kinds(l)] for l in ("Python", "C")},
                  "generated_files_per_language": {l: len(generated(l, thorough)) for l in canon.LANGS}}
    ctx.rule = ("case = (file, insertion set): every single (safe boundary, kind); all kinds applied at every safe boundary at once; all pairs of single "
                "insertions on generated programs. Non-trivial: the file has >= 1 function and the variant is token-safe. Outcome in {same, diff, "
                "raised, not-token-safe}.")
    # file level: every language under its usual extension, and the secondary extensions that map to a supported language
    for lang, ext in [(l, canon.EXT[l]) for l in canon.LANGS] + [("C", "h"), ("C++", "hpp"), ("C++", "cc"), ("JavaScript", "mjs"), ("Python", "pyi")]:
        blocks.append(("FILES", lang, ext))
    ctx.run_blocks(_block, blocks)
