"""C13 - the pattern engine implements regular-expression semantics.

(a) every pattern tree up to a size bound x every sequence up to a length bound through the
    public match / nfa_match / starts_with, compared with Brzozowski derivatives;
(b) per pattern, product-automaton reachability: the real DFA stepped with the real
    Pattern.consume in lock-step with the derivative automaton, (DFA state, derivative)
    pairs explored breadth-first to a fixpoint -> language equivalence for every length.
"""
from __future__ import annotations

from mc import core
from mc import real
from mc.real import top_expr
from mc.refs import regex as R

ID = "C13"
LEVEL = "model_checking"
TECHNIQUE = "bounded-exhaustive (pattern tree x sequence) enumeration + DFA x derivative product reachability to fixpoint"

LEVEL_TEXT = ("Every pattern tree up to the size bound and every sequence up to the length bound is executed on the real "
              "matcher and compared with an independent derivative semantics; per pattern the real DFA is additionally proven "
              "language-equivalent to the reference for sequences of every length by exhaustive product-state reachability; every ordered "
              "pair of small patterns is additionally run in one fresh process (first used, second checked) so that state kept between "
              "patterns cannot hide. "
              "Exhaustive within the bounds, nothing sampled.")
LEVEL_NOTE = ("Trusted: the Brzozowski-derivative reference (mc/refs/regex.py). Bounds: pattern size and atom alphabet as "
              "recorded in the evidence; predicates are stateless Identity atoms (stateful predicates are C14/C15)."
              " Repeated with five further atom kinds (words/tuples, same printed label, client predicates, value-attribute items, token predicates of different classes), a shared-operand family and inputs of up to 2100 items.")
BUILD_LIMIT_S = 20.0


def _build(expr):
    from codelimit.common.gsm.Expression import expression_to_nfa, nfa_to_dfa

    return nfa_to_dfa(expression_to_nfa(expr))


def _product(tree, ref, alphabet, agg, case_base, mk=None):
    """lock-step BFS of the real DFA and the derivative automaton"""
    from codelimit.common.gsm.Pattern import Pattern

    out = []
    dfa = _build(mk() if mk else top_expr(tree))
    start = (dfa.start, ref)
    seen = {(id(dfa.start), ref)}
    frontier = [(dfa.start, ref, "")]
    n_trans = 0
    while frontier:
        nxt = []
        for st, r, path in frontier:
            acc = dfa.is_accepting(st)
            if acc != R.nullable(r):
                out.append(("dfa-accepting-mismatch", {"api": "dfa", "got_accepting": acc}, path))
            # determinism of the constructed automaton: no alphabet item is accepted by two transitions of one state
            for a in alphabet:
                item = real.real_seq(a)[0]
                if sum(1 for tr in st.transition if tr[0].accept(item)) > 1:
                    out.append(("dfa-duplicate-label", {"api": "dfa"}, path))
                    break
            for a in alphabet:
                p = Pattern(0, dfa)
                p.state = st
                try:
                    res = p.consume(real.real_seq(a)[0])
                except ValueError as e:
                    out.append(("dfa-ambiguous", {"api": "dfa", "error": str(e)}, path + a))
                    continue
                d = R.deriv(r, a)
                n_trans += 1
                if (res is None) != (d == R.EMPTY):
                    out.append(("dfa-transition-mismatch", {"api": "dfa", "dfa_dies": res is None}, path + a))
                    continue
                if res is None:
                    continue
                key = (id(res), d)
                if key not in seen:
                    seen.add(key)
                    nxt.append((res, d, path + a))
        frontier = nxt
    agg.transitions += n_trans
    for _ in seen:
        pass
    return out, len(seen)


def eval_tree(tree, seqs, alphabet, agg, shared=False):
    """explore one pattern completely; returns list of (kind, sig, seq, detail).
    shared: the expression is built ONCE, equal sub-trees being one Python object, and that one object is handed to every
    call (a language definition holds its pattern and operand lists for the life of the process)"""
    from codelimit.common.gsm import matcher

    tj = R.to_json(tree)
    ref = R.compile_tree(tree)
    if shared:
        the_expr = top_expr(tree, shared=True)
        mk = lambda: the_expr
    else:
        mk = lambda: top_expr(tree)
    try:
        with core.time_limit(BUILD_LIMIT_S):
            _build(mk())
    except RecursionError:
        agg.case({"pattern": tj, "seq": None}, True, "build:RecursionError", sample=False)
        return [("build-does-not-terminate", {"api": "build", "error": "RecursionError"}, None,
                 f"building the matcher for {R.show(tree)} raises RecursionError")]
    except core.Timeout:
        agg.case({"pattern": tj, "seq": None}, True, "build:timeout", sample=False)
        return [("build-does-not-terminate", {"api": "build", "error": "timeout"}, None,
                 f"building the matcher for {R.show(tree)} did not finish in {BUILD_LIMIT_S}s")]
    except Exception as e:  # noqa - building a matcher for a well-formed pattern must not fail at all
        agg.case({"pattern": tj, "seq": None}, True, "build:raised", sample=False)
        return [("build-raises", {"api": "build", "error": type(e).__name__}, None, f"building the matcher for {R.show(tree)} raises {e!r}")]
    out = []
    # (b) product reachability
    prod, nstates = _product(tree, ref, alphabet, agg, tj, mk)
    for kind, sig, path in prod:
        out.append((kind, sig, path, f"pattern {R.show(tree)} after {path!r}"))
    for i in range(nstates):
        agg.states.add(core.digest([tj, i]))
    # (a) public API on every sequence
    for seq in seqs:
        s = list(seq)
        exp_member = R.member(ref, s)
        exp_prefix = R.shortest_nonempty_prefix(ref, s)
        nontrivial = len(s) > 0 and R.viable(ref, s[:1])
        agg.case({"pattern": tj, "seq": seq}, nontrivial, (exp_member, exp_prefix), sample=(len(s) >= 3 and exp_member))
        for api in ("match", "nfa_match", "starts_with"):
            try:
                got = getattr(matcher, api)(mk(), real.real_seq(s))
            except RecursionError:
                out.append(("api-recursion", {"api": api, "error": "RecursionError"}, seq, ""))
                continue
            except Exception as e:  # noqa
                out.append(("api-exception", {"api": api, "error": type(e).__name__}, seq, repr(e)))
                continue
            if api == "starts_with":
                got_len = got.end if got else None
                if got_len != exp_prefix:
                    out.append(("starts-with-mismatch",
                                {"api": api, "dir": "missed" if got_len is None else ("spurious" if exp_prefix is None else "wrong-length")},
                                seq, f"{R.show(tree)} on {seq!r}: expected shortest prefix {exp_prefix}, got {got_len}"))
                elif got is not None and (got.start != 0 or got.tokens != real.real_seq(s[:got_len])):
                    out.append(("starts-with-span", {"api": api}, seq, f"start={got.start} tokens={got.tokens}"))
            else:
                if bool(got) != exp_member:
                    out.append(("membership-mismatch", {"api": api, "dir": "false-accept" if got else "false-reject"},
                                seq, f"{R.show(tree)} on {seq!r}: expected {exp_member}, got {bool(got)}"))
                elif api == "match" and got and (got.start != 0 or got.end != len(s) or got.tokens != real.real_seq(s)):
                    out.append(("match-span", {"api": api}, seq, f"start={got.start} end={got.end} tokens={got.tokens}"))
    return out


def shared_trees(body_size):
    """patterns in which one operand occurs TWICE (built as one shared object): op1(B) . op2(B), op1(B) | op2(B), op1(B) . c . op2(B)
    for every body B up to body_size nodes over {a, b} and op in {identity, ?, *, +}"""
    bodies = [t for sz in range(1, body_size + 1) for t in R.trees(sz, "ab")]
    ops = [lambda x: x, lambda x: ("opt", x), lambda x: ("star", x), lambda x: ("plus", x)]
    out = []
    for b in bodies:
        for o1 in ops:
            for o2 in ops:
                x, y = o1(b), o2(b)
                out.append(("cat", x, y))
                out.append(("alt", x, y))
                out.append(("cat", x, ("cat", ("c",), y)))
    return out


WORD_ATOMS = {"a": "async", "b": ("tuple", 1), "c": "x"}  # a multi-character word, a tuple, a single character


def atom_kinds():
    """name -> (pattern atoms, sequence items): alphabets whose items are opaque to the engine in different ways"""
    from codelimit.common.gsm.predicate.Predicate import Predicate

    class OneOf(Predicate):
        """a client-defined predicate (the engine's Identity is only the default for plain items)"""

        def __init__(self, *items):
            self.items = frozenset(items)

        def accept(self, item):
            return item in self.items

        def __eq__(self, other):
            return isinstance(other, OneOf) and other.items == self.items

        def __hash__(self):
            return hash(self.items)

        def __str__(self):
            return "OneOf"  # all instances print alike: labels are for display, not identity

    import enum

    from mc.checks.c15 import tok
    from codelimit.common.token_matching.predicate.Keyword import Keyword
    from codelimit.common.token_matching.predicate.Operator import Operator
    from codelimit.common.token_matching.predicate.Symbol import Symbol

    class Letter(enum.Enum):
        A = "a"   # an item that is NOT the string 'a' but carries it in an attribute called value

    return {
        # the atom 'a' and the atom Letter.A are different items (Letter.A != 'a')
        "valueattr": ({"a": "a", "b": Letter.A, "c": "c"}, {}),
        # token predicates of different classes that compare the same text: ':' as punctuation, as operator, as keyword
        "tokenpreds": ({"a": Symbol(":"), "b": Operator(":"), "c": Keyword(":")}, {"a": tok("p::"), "b": tok("op::"), "c": tok("kw::")}),
        # every occurrence of a letter in the pattern is a fresh, equal-but-distinct predicate object
        "freshpreds": ({"a": real.AtomFactory(lambda: OneOf("a")), "b": real.AtomFactory(lambda: OneOf("b")), "c": "c"}, {"a": "a", "b": "b", "c": "c"}),
        # items that are falsy in Python: the number 0 and the empty string are ordinary alphabet items
        "falsy": ({"a": 0, "b": "", "c": "x"}, {}),
        "words": (WORD_ATOMS, {}),
        # distinct, disjoint atoms whose printed form is identical
        "samelabel": ({"a": 1, "b": "1", "c": "x"}, {}),
        # atoms that are predicate objects; the sequence holds plain items
        "predicates": ({"a": OneOf("a", "A"), "b": OneOf("b"), "c": "c"}, {"a": "A", "b": "b", "c": "c"}),
    }


LONG_PATTERNS = [("cat", ("star", ("a",)), ("b",)), ("cat", ("plus", ("cat", ("a",), ("b",))), ("c",)), ("plus", ("alt", ("a",), ("b",)))]
LONG_LENGTHS = [255, 256, 257, 511, 512, 513, 1023, 1024, 1025, 2100]


def _phrase(n):
    """a fixed phrase of n items (a b a b ...) as a right-nested cat, optionally repeated"""
    t = ("a",) if (n - 1) % 2 == 0 else ("b",)
    for i in range(n - 2, -1, -1):
        t = ("cat", ("a",) if i % 2 == 0 else ("b",), t)
    return t


def _block_long(block, agg):
    """long inputs: the shortest matching prefix / the whole word lies beyond any small window; and LONG PATTERNS (fixed phrases of
    63..260 items: automata with that many states)"""
    from codelimit.common.gsm import matcher

    for n in (63, 64, 65, 66, 127, 128, 129, 200, 260):
        for tree, label in ((_phrase(n), "phrase"), (("plus", _phrase(n)), "phrase+"), (("cat", ("opt", ("c",)), _phrase(n)), "c?phrase")):
            word = "".join("ab"[i % 2] for i in range(n))
            for seq, exp in ((word, True), (word[:-1], False), (word + "a", label == "phrase+" and False), (word + word, label == "phrase+")):
                case = {"long": [label, n], "pattern": None}
                agg.case({"long_pattern": [label, n, len(seq)]}, True, exp, sample=False)
                for api in ("match", "nfa_match"):
                    try:
                        got = bool(getattr(matcher, api)(top_expr(tree), list(seq)))
                    except RecursionError:
                        agg.violation("api-recursion", {"api": api, "error": "RecursionError", "family": "long-pattern"}, case, f"{label} of {n} items")
                        continue
                    except Exception as e:  # noqa
                        agg.violation("api-exception", {"api": api, "error": type(e).__name__, "family": "long-pattern"}, case, repr(e))
                        continue
                    if got != exp:
                        agg.violation("membership-mismatch", {"api": api, "dir": "false-accept" if got else "false-reject", "family": "long-pattern"}, case,
                                      f"{label} of {n} items on a word of {len(seq)} items: expected {exp}")
    for tree in LONG_PATTERNS:
        ref = R.compile_tree(tree)
        for n in LONG_LENGTHS:
            seqs = {"a^n b": "a" * n + "b", "(ab)^n c": "ab" * n + "c", "a^n": "a" * n, "a^n b a": "a" * n + "ba", "(ab)^n": "ab" * n}
            for label, seq in seqs.items():
                s = list(seq)
                exp_member, exp_prefix = R.member(ref, s), R.shortest_nonempty_prefix(ref, s)
                case = {"pattern": R.to_json(tree), "long": [label, n]}
                agg.case(case, True, (exp_member, exp_prefix is not None), sample=False)
                for api in ("match", "nfa_match", "starts_with"):
                    try:
                        got = getattr(matcher, api)(top_expr(tree), s)
                    except Exception as e:  # noqa
                        agg.violation("api-exception", {"api": api, "error": type(e).__name__, "family": "long"}, case, repr(e))
                        continue
                    if api == "starts_with":
                        if (got.end if got else None) != exp_prefix:
                            agg.violation("starts-with-mismatch", {"api": api, "dir": "missed" if got is None else "wrong-length", "family": "long"}, case,
                                          f"{R.show(tree)} on {label} n={n}: expected shortest prefix {exp_prefix}, got {got.end if got else None}")
                    elif bool(got) != exp_member:
                        agg.violation("membership-mismatch", {"api": api, "dir": "false-accept" if got else "false-reject", "family": "long"}, case,
                                      f"{R.show(tree)} on {label} n={n}: expected {exp_member}")


def _block(block, agg):
    if block[0] == "pairs":
        return _block_pairs(block, agg)
    if block[0] == "shared":
        _, body_size, lo, hi, seq_alpha, seq_len = block
        seqs = R.sequences(seq_alpha, seq_len)
        for tree in shared_trees(body_size)[lo:hi]:
            for kind, sig, seq, detail in eval_tree(tree, seqs, seq_alpha, agg, shared=True):
                agg.violation(kind, dict(sig, operands="shared"), {"pattern": R.to_json(tree), "seq": seq, "alphabet": seq_alpha, "shared": True}, detail)
        return
    if block[0] == "long":
        return _block_long(block, agg)
    if block[0] in ("words", "samelabel", "predicates", "valueattr", "tokenpreds", "freshpreds", "falsy"):
        pat_atoms, seq_items = atom_kinds()[block[0]]
        real.ATOMS.clear()
        real.SEQ.clear()
        real.ATOMS.update(pat_atoms)
        real.SEQ.update(seq_items)
        try:
            inner = tuple(block[1:])
            atoms, size, lo, hi, seq_alpha, seq_len = inner
            seqs = R.sequences(seq_alpha, seq_len)
            for idx, tree in enumerate(R.trees(size, atoms)[lo:hi]):
                for kind, sig, seq, detail in eval_tree(tree, seqs, seq_alpha, agg):
                    agg.violation(kind, dict(sig, atoms=block[0]), {"pattern": R.to_json(tree), "seq": seq, "alphabet": seq_alpha, "atoms": block[0]}, detail)
        finally:
            real.ATOMS.clear()
            real.SEQ.clear()
        return
    atoms, size, lo, hi, seq_alpha, seq_len = block
    seqs = R.sequences(seq_alpha, seq_len)
    for idx, tree in enumerate(R.trees(size, atoms)[lo:hi]):
        for kind, sig, seq, detail in eval_tree(tree, seqs, seq_alpha, agg):
            agg.violation(kind, sig, {"pattern": R.to_json(tree), "seq": seq, "alphabet": seq_alpha,
                                      "context": {"block": list(block), "index": idx}}, detail)


# ---------------------------------------------------------------------------------------
# (c) histories of two patterns in one process (each pair in a forked child = same initial process state)
# ---------------------------------------------------------------------------------------

def pair_trees(max_size, atoms="ab"):
    out = []
    for sz in range(1, max_size + 1):
        out += R.trees(sz, atoms)
    return out


def warm(tree):
    """use pattern A the way a client would: every public entry point once"""
    from codelimit.common.gsm import matcher

    e = lambda: top_expr(tree)
    for api, arg in (("match", list("ab")), ("nfa_match", list("ab")), ("starts_with", list("ab"))):
        try:
            getattr(matcher, api)(e(), arg)
        except Exception:
            pass
    if not R.nullable(R.compile_tree(tree)):
        try:
            matcher.find_all(e(), list("abab"))
        except Exception:
            pass


def run_pair(a_json, b_json, alpha, slen):
    agg = core.Agg()
    warm(R.from_json(a_json))
    out = eval_tree(R.from_json(b_json), R.sequences(alpha, slen), alpha, agg)
    return [[k, sig, seq, d] for k, sig, seq, d in out]


def _block_pairs(block, agg):
    from mc.checks.c06 import isolated

    _, max_size, lo, hi, alpha, slen = block
    trees = pair_trees(max_size)
    for a in trees[lo:hi]:
        aj = R.to_json(a)
        for b in trees:
            if a == b:
                continue
            bj = R.to_json(b)
            res = isolated(run_pair, aj, bj, alpha, slen)
            agg.case({"history": [aj], "pattern": bj}, True, "ok" if not res else res[0][0], sample=False)
            agg.transitions += 1
            for kind, sig, seq, detail in res:
                agg.violation("result-depends-on-previously-used-pattern", {"api": sig.get("api"), "underlying": kind},
                              {"history": [aj], "pattern": bj, "seq": seq, "alphabet": alpha, "slen": slen},
                              f"after using pattern {R.show(a)}: {detail}")


def replay(case):
    from mc.checks.c06 import isolated

    if "history" in case:
        res = isolated(run_pair, case["history"][0], case["pattern"], case.get("alphabet", "ab"), case.get("slen", 3))
        return [{"kind": "result-depends-on-previously-used-pattern", "sig": {"api": sig.get("api"), "underlying": k}, "detail": d}
                for k, sig, seq, d in res if seq == case.get("seq") or True][:3]
    out = isolated(_replay_isolated, case)
    if out or "context" not in case:
        return out
    # not reproducible in isolation: does it reproduce when the earlier patterns of its block are used first (same process)?
    def rerun(block, index):
        agg = core.Agg()
        atoms, size, lo, hi, alpha, slen = block
        seqs = R.sequences(alpha, slen)
        found = []
        for i, tree in enumerate(R.trees(size, atoms)[lo:hi]):
            r = eval_tree(tree, seqs, alpha, agg)
            if i == index:
                found = [[k, sig, d] for k, sig, seq, d in r]
                break
        return found

    res = isolated(rerun, case["context"]["block"], case["context"]["index"])
    return [{"kind": k, "sig": sig, "detail": "[only after the earlier patterns of the same block were used in the same process] " + d} for k, sig, d in res]


def _replay_isolated(case):
    agg = core.Agg()
    if "long" in case:
        _block_long(("long",), agg)
        return [r for lst in agg.violations.values() for _, r in lst][:3]
    if case.get("atoms"):
        pat_atoms, seq_items = atom_kinds()[case["atoms"]]
        real.ATOMS.update(pat_atoms)
        real.SEQ.update(seq_items)
    tree = R.from_json(case["pattern"])
    alpha = case.get("alphabet", "abc")
    seqs = [case["seq"]] if case.get("seq") is not None else [""]
    out = []
    for kind, sig, seq, detail in eval_tree(tree, seqs, alpha, agg, shared=bool(case.get("shared"))):
        out.append({"kind": kind, "sig": dict(sig, operands="shared") if case.get("shared") else sig, "detail": detail})
    return out


def run(ctx: core.Ctx):
    # import (not use) everything the children need, so that 25 000 forked children do not each import it again
    from codelimit.common.gsm import matcher, Expression, Pattern  # noqa
    from codelimit.common.gsm.operator import OneOrMore, Optional, Union, ZeroOrMore  # noqa
    import mc.checks.c06  # noqa
    # (atoms, max size, sequence alphabet, max sequence length)
    plans = ctx.pick(
        [("ab", 4, "abc", 5), ("abc", 3, "abc", 5), ("ab", 5, "ab", 4)],
        [("ab", 6, "abc", 5), ("abc", 5, "abc", 5), ("ab", 7, "ab", 4)],
    )
    ctx.bounds = {"plans(atoms,max_size,seq_alphabet,max_len)": plans}
    ctx.rule = ("cases = (pattern tree, sequence): every tree with <= max_size nodes over the atoms (cat right-nested), "
                "every sequence over the alphabet up to max_len, through match / nfa_match / starts_with; plus per tree the "
                "reachable (real DFA state, Brzozowski derivative) pairs to fixpoint (states/transitions); plus every ORDERED PAIR of trees up to "
                "pattern_pairs.max_size: the first is used through every entry point, then the second is checked completely, each pair in a forked child. Non-trivial: "
                "non-empty sequence whose first letter is a viable prefix. Distinct = distinct (tree, sequence).")
    ctx.assumptions = ["atoms are pairwise-disjoint Identity predicates over single letters",
                       "reference semantics: Brzozowski derivatives with ACI-normalised constructors (mc/refs/regex.py)"]
    blocks = []
    done = set()
    for atoms, maxsize, alpha, slen in plans:
        for size in range(1, maxsize + 1):
            if (atoms, size, alpha, slen) in done:
                continue
            done.add((atoms, size, alpha, slen))
            n = len(R.trees(size, atoms))
            step = max(1, min(400, n // (ctx.workers * 4) + 1))
            for lo in range(0, n, step):
                blocks.append((atoms, size, lo, min(n, lo + step), alpha, slen))
    # the same enumeration with alphabet items that are a word, a tuple and a character (items are opaque to the engine)
    for size in range(1, ctx.pick(3, 4) + 1):
        n = len(R.trees(size, "abc"))
        step = max(1, n // ctx.workers + 1)
        for lo in range(0, n, step):
            for kind in ("words", "samelabel", "predicates", "valueattr", "tokenpreds", "freshpreds", "falsy"):
                blocks.append((kind, "abc", size, lo, min(n, lo + step), "abc", 4 if kind == "words" else 3))
    # one operand object used twice in a pattern, the expression object reused for every call
    body_size = ctx.pick(3, 4)
    nsh = len(shared_trees(body_size))
    ctx.bounds["shared_operands"] = {"body_size": body_size, "patterns": nsh, "sequences": f"all over abc up to length {ctx.pick(3, 4)} + product reachability to fixpoint"}
    step = max(1, nsh // (ctx.workers * 2) + 1)
    for lo in range(0, nsh, step):
        blocks.append(("shared", body_size, lo, min(nsh, lo + step), "abc", ctx.pick(3, 4)))
    blocks.append(("long",))
    ctx.bounds["long_inputs"] = {"patterns": [R.show(t) for t in LONG_PATTERNS], "lengths": LONG_LENGTHS}
    # fresh-object atoms need patterns in which one letter is reachable at two positions at once (a|ab, (ab)?ac ...): sizes 4-5 over {a, b}
    for size in (4, 5):
        n = len(R.trees(size, "ab"))
        step = max(1, n // ctx.workers + 1)
        for lo in range(0, n, step):
            blocks.append(("freshpreds", "ab", size, lo, min(n, lo + step), "ab", 4))
    ctx.bounds["word_atoms"] = {k: repr(v) for k, v in WORD_ATOMS.items()}
    ctx.bounds["other_atom_kinds"] = {"samelabel": "1, '1', 'x' (two atoms print alike)", "predicates": "client-defined Predicate objects OneOf{a,A}, OneOf{b} and a plain item"}
    pair_size = 4  # 160 trees -> 25 440 ordered pairs (size 5 would be 655 000 forked children)
    npair = len(pair_trees(pair_size))
    ctx.bounds["pattern_pairs"] = {"max_size": pair_size, "trees": npair, "ordered_pairs": npair * (npair - 1), "sequences": "all over ab up to length 3"}
    step = max(1, npair // (ctx.workers * 4) + 1)
    for lo in range(0, npair, step):
        blocks.append(("pairs", pair_size, lo, min(npair, lo + step), "ab", ctx.pick(3, 4)))
    ctx.run_blocks(_block, blocks, fresh=True)
