"""C18 - rendered report, diff and findings show exactly the stored numbers.

E-prod over (current report, optional previous report) pairs built from per-language totals
variants (languages appear, disappear, rise, fall, stay, tie on lines of code) in both output
formats, and over findings lists of 0..13 functions around the 10-row cut-off x full x
repository x format. The real renderers print to a recording console; the tables are parsed
back. A few real trees additionally go scan_command -> report_command / findings_command.
"""
from __future__ import annotations

import itertools
import os
import re
from pathlib import Path

from mc import core, harness

ID = "C18"
LEVEL = "exploration"
TECHNIQUE = "exhaustive product of per-language totals variants for (current, previous) report pairs and of findings counts around the cut-off, rendered by the real formatters and parsed back"
LEVEL_TEXT = ("Every combination of {absent, 4 totals variants} per language for the current and the previous report over up to 3 languages, in "
              "text and Markdown, and every findings count 0..13 x length pattern x full x repository x format is rendered by the real code; "
              "the parsed cells must equal the stored numbers, deltas must appear exactly when figures differ, both formats must agree, "
              "ordering / cut-off / 'more rows' message must be exact. Exhaustive within the bounds.")
LEVEL_NOTE = ("Bounds in evidence.bounds. For a language absent from the previous report only the base figure is checked (the property speaks about "
              "languages present in both). No totals row is required when fewer than two languages are shown."
              " Pairs are rendered through print_report with comparison reports from another checkout path; findings on 9- and 50-line terminals; command trees in a fresh interpreter per terminal width (250, 80).")

VARIANTS = [(1, 2, 30, 0, 0), (2, 3, 30, 1, 0), (3, 1, 1200, 1, 2), (1, 2, 45, 0, 1),  # files, functions, loc, hard, unmaintainable
            # large code bases: six-digit figures whose deltas have five digits (a cell like '254321 (+23277)' is 15 characters wide)
            (1200, 34567, 254321, 789, 91), (1100, 30000, 231044, 700, 50)]
# two triples: one name a prefix of another (Java / JavaScript), and names that differ only in punctuation (C / C++ / C#)
LANGSETS = [["Python", "JavaScript", "Java"], ["C", "C++", "C#"]]
LANGS = [l for ls in LANGSETS for l in ls]
CELL = re.compile(r"^(\d+)(?: \(([+-]\d+)\))?$")


def mk_report(assign, repository=None, root="/r"):
    """assign: {language: variant index}"""
    from codelimit.common.Codebase import Codebase
    from codelimit.common.LanguageTotals import LanguageTotals
    from codelimit.common.report.Report import Report

    cb = Codebase(root)
    for lang, vi in assign.items():
        t = LanguageTotals(lang)
        t.files, t.functions, t.loc, t.hard_to_maintain, t.unmaintainable = VARIANTS[vi]
        cb.totals[lang] = t
    cb.aggregate()
    return Report(cb, repository)


def parse_markdown_table(text):
    rows = []
    for l in text.splitlines():
        if "|" not in l or "---" in l or "**Language**" in l:
            continue
        if l.strip().startswith("###"):
            continue
        cells = [c.strip() for c in l.strip().strip("|").split("|")]
        if len(cells) == 6:
            rows.append([c.replace("**", "").strip() for c in cells])
    return rows


def parse_text_table(text):
    """rich SIMPLE-box table: cells separated by >= 2 spaces"""
    rows = []
    started = False
    for l in text.splitlines():
        s = l.strip()
        if not s:
            continue
        if s.startswith("Language"):
            started = True
            continue
        if not started:
            continue
        if set(s) <= set("─━-╶╴ "):
            continue
        if s.startswith("Summary"):
            break
        cells = re.split(r"\s{2,}", s)
        rows.append(cells)
    return rows


def expected_rows(cur, prev):
    """returns (language rows, totals row or None); each row = (label, [(n, delta or None or 'any')]*5)"""
    langs = sorted(cur, key=lambda l: -VARIANTS[cur[l]][2])
    rows = []
    for lang in cur:
        v = VARIANTS[cur[lang]]
        order = (v[0], v[1], v[2], v[3], v[4])
        cells = []
        for i, n in enumerate(order):
            if prev is None:
                cells.append((n, None))
            elif lang in prev:
                d = n - VARIANTS[prev[lang]][i]
                cells.append((n, d if d else None))
            else:
                cells.append((n, "any"))
        rows.append((lang, cells))
    tot = None
    if len(cur) > 1:
        cells = []
        for i in range(5):
            n = sum(VARIANTS[v][i] for v in cur.values())
            if prev is None:
                cells.append((n, None))
            else:
                d = n - sum(VARIANTS[v][i] for v in prev.values())
                cells.append((n, d if d else None))
        tot = ("Totals", cells)
    return rows, tot


def check_cells(label, got_cells, want_cells, fmt):
    out = []
    if len(got_cells) != 5:
        return [("overview-row-malformed", {"format": fmt}, f"{label}: {got_cells}")]
    for idx, (g, (n, d)) in enumerate(zip(got_cells, want_cells)):
        m = CELL.match(g)
        col = ["files", "functions", "loc", "hard", "unmaintainable"][idx]
        if not m:
            out.append(("overview-cell-unparseable", {"format": fmt}, f"{label}.{col}: {g!r}"))
            continue
        gn, gd = int(m.group(1)), (int(m.group(2)) if m.group(2) else None)
        if gn != n:
            out.append(("overview-number-wrong", {"format": fmt, "row": "totals" if label == "Totals" else "language"},
                        f"{label}.{col}: shows {gn}, stored {n}"))
        if d == "any":
            continue
        if gd != d:
            kind = "delta-missing" if gd is None else ("delta-spurious" if d is None else "delta-wrong")
            out.append((f"overview-{kind}", {"format": fmt, "row": "totals" if label == "Totals" else "language"},
                        f"{label}.{col}: shows {g!r}, expected {n}" + (f" ({d:+d})" if d else "")))
    return out


def eval_pair(cur, prev):
    from codelimit.common.report import format_markdown, format_text

    out = []
    rep = mk_report(cur)
    # the comparison report was usually written elsewhere (the base branch in another checkout, another machine)
    prep = mk_report(prev, root="/ci/base/checkout" if len(prev) % 2 else "/r") if prev is not None else None
    want_rows, want_tot = expected_rows(cur, prev)
    parsed = {}
    for fmt, mod, parser in (("text", format_text, parse_text_table), ("markdown", format_markdown, parse_markdown_table)):
        try:
            # the whole report as the command prints it (overview table first), not only the table function
            text = harness.render(mod.print_report, rep, prep, console_pos=0)
        except Exception as e:  # noqa
            out.append(("render-raised", {"format": fmt, "error": type(e).__name__}, repr(e)))
            continue
        rows = parser(text)
        lang_rows = [r for r in rows if r and r[0] in LANGS]
        other = [r for r in rows if r and r[0] not in LANGS]
        if fmt == "text" and other:
            # footer row of the rich table has an empty first cell
            other = [[""] + r if len(r) == 5 else r for r in other]
        parsed[fmt] = (lang_rows, other)
        names = [r[0] for r in lang_rows]
        if sorted(names) != sorted(cur):
            out.append(("overview-languages-wrong", {"format": fmt}, f"rows {names}, stored {sorted(cur)}"))
            continue
        locs = [VARIANTS[cur[n]][2] for n in names]
        if any(a < b for a, b in zip(locs, locs[1:])):
            out.append(("overview-order-wrong", {"format": fmt}, f"rows {names} with loc {locs}"))
        wr = dict(want_rows)
        for r in lang_rows:
            out += check_cells(r[0], r[1:], wr[r[0]], fmt)
        if want_tot is not None:
            if len(other) != 1:
                out.append(("overview-totals-row-missing", {"format": fmt}, f"{other}"))
            else:
                out += check_cells("Totals", other[0][1:], want_tot[1], fmt)
        elif other:
            # a totals row for < 2 languages is allowed but must be right
            cells = [(sum(VARIANTS[v][i] for v in cur.values()), "any") for i in range(5)]
            for o in other:
                out += check_cells("Totals", o[1:], cells, fmt)
    if len(parsed) == 2:
        t = {r[0]: r[1:] for r in parsed["text"][0]}
        m = {r[0]: r[1:] for r in parsed["markdown"][0]}
        for lang in cur:
            if lang in prev if prev is not None else True:
                if t.get(lang) != m.get(lang):
                    out.append(("formats-disagree", {"row": "language"}, f"{lang}: text {t.get(lang)} markdown {m.get(lang)}"))
        tt = [o[1:] for o in parsed["text"][1]]
        mt = [o[1:] for o in parsed["markdown"][1]]
        if want_tot is not None and tt != mt:
            out.append(("formats-disagree", {"row": "totals"}, f"text {tt} markdown {mt}"))
    return out


# ---------------------------------------------------------------------------------------
# findings
# ---------------------------------------------------------------------------------------

def findings_lengths(n, pattern):
    if pattern == "distinct":
        return [31 + 3 * i for i in range(n)]
    if pattern == "tied":
        return [40] * n
    return [61 if i % 3 == 0 else 35 + (i % 2) for i in range(n)]  # mixed with ties


def eval_findings(n, pattern, nfiles, full, with_repo, fmt):
    from codelimit.common.GithubRepository import GithubRepository
    from codelimit.common.report import format_markdown, format_text
    from codelimit.common.report.Report import Report

    out = []
    lengths = findings_lengths(n, pattern)
    per_file = {f"src/f{j}.py": [] for j in range(nfiles)}
    names = {}
    keys = list(per_file)
    for i, L in enumerate(lengths):
        per_file[keys[i % nfiles]].append(L)
    for k in keys:
        per_file[k] += [30, 7]  # never listed
    cb = harness.codebase([(p, "Python", ls) for p, ls in per_file.items()])
    cb.aggregate()
    rep = Report(cb, GithubRepository("own", "nam", branch="br") if with_repo else None)
    truth = {}
    for p, e in cb.files.items():
        for m in e.measurements():
            truth[(p, m.unit_name)] = (m.value, m.start.line, m.start.column, m.end.line)
    # the terminal's HEIGHT is part of the environment too (rich reads LINES when a console is created): a small pane for odd n
    saved_lines = os.environ.get("LINES")
    os.environ["LINES"] = "9" if n % 2 else "50"
    try:
        if fmt == "text":
            text = harness.render(format_text.print_findings, rep, full, console_pos=0)
        else:
            text = harness.render(format_markdown.print_findings, rep, full, console_pos=1)
    finally:
        if saved_lines is None:
            os.environ.pop("LINES", None)
        else:
            os.environ["LINES"] = saved_lines
    rows = []
    more = None
    for l in text.splitlines():
        s = l.strip()
        if not s:
            continue
        mm = re.match(r"^(\d+) more rows", s)
        if mm:
            more = int(mm.group(1))
            continue
        if fmt == "text":
            m = re.match(r"^(?P<file>\S+):(?P<line>\d+):(?P<col>\d+): (?P<len>\d+) (?P<sym>\S) (?P<name>\S+)$", s)
            if m:
                rows.append((m["file"], m["name"], int(m["len"]), int(m["line"]), m["sym"]))
            else:
                out.append(("findings-line-unparseable", {"format": fmt}, s))
        else:
            if s.startswith("| **") or s.startswith("| ---"):
                continue
            cells = [c.strip() for c in s.strip("|").split("|")]
            if with_repo and len(cells) == 3:
                m = re.match(r"^(?P<sym>\S+) \[(?P<name>[^\]]+)\]\((?P<link>[^)]+)\)$", cells[0])
                if not m:
                    out.append(("findings-line-unparseable", {"format": fmt}, s))
                    continue
                f = cells[2]
                t = truth.get((f, m["name"]))
                if t and m["link"] != f"https://github.com/own/nam/blob/br/{f}#L{t[1]}-L{t[3]}":
                    out.append(("findings-link-wrong", {"format": fmt}, m["link"]))
                rows.append((f, m["name"], int(cells[1]), t[1] if t else -1, m["sym"]))
            elif not with_repo and len(cells) == 5:
                sym, _, name = cells[4].partition(" ")
                rows.append((cells[0], name, int(cells[3]), int(cells[1]), sym))
            else:
                out.append(("findings-line-unparseable", {"format": fmt}, s))
    want_all = sorted([v[0] for v in truth.values() if v[0] > 30], reverse=True)
    limit = len(want_all) if full or len(want_all) <= 10 else 10
    sig = {"format": fmt, "full": full}
    for f, name, L, line, sym in rows:
        t = truth.get((f, name))
        if t is None or t[0] != L or t[1] != line:
            out.append(("findings-row-not-a-stored-function", sig, f"{(f, name, L, line)} vs stored {t}"))
        elif L <= 30:
            out.append(("findings-lists-short-function", sig, f"{(f, name, L)}"))
        want_sym = {"text": "✖" if L > 60 else "⚠", "markdown": "❌" if L > 60 else "⚠"}[fmt]
        if sym != want_sym:
            out.append(("findings-symbol-wrong", sig, f"{name} L={L} shows {sym!r}"))
    if len(set((f, n_) for f, n_, *_ in rows)) != len(rows):
        out.append(("findings-duplicate-row", sig, ""))
    got_l = [r[2] for r in rows]
    if got_l != want_all[:limit]:
        what = "order" if sorted(got_l, reverse=True) == want_all[:limit] else "set"
        out.append(("findings-list-wrong", dict(sig, what=what), f"lengths shown {got_l}, expected {want_all[:limit]}"))
    want_more = len(want_all) - 10 if (not full and len(want_all) > 10) else None
    if more != want_more:
        out.append(("findings-more-rows-message-wrong", sig, f"message says {more}, expected {want_more} (findings={len(want_all)})"))
    return out


def eval_render_sequence(n, seq):
    """ONE Report object rendered several times (format, full) in a row: every rendering must be what a fresh Report gives"""
    from codelimit.common.report import format_markdown, format_text
    from codelimit.common.report.Report import Report

    def mk():
        lengths = findings_lengths(n, "distinct")
        cb = harness.codebase([("src/f0.py", "Python", lengths + [30, 7]), ("src/f1.py", "Python", [45])])
        cb.aggregate()
        return Report(cb)

    def render(rep, fmt, full):
        if fmt == "text":
            return harness.render(format_text.print_findings, rep, full, console_pos=0)
        return harness.render(format_markdown.print_findings, rep, full, console_pos=1)

    out = []
    shared = mk()
    for i, (fmt, full) in enumerate(seq):
        got = render(shared, fmt, full)
        want = render(mk(), fmt, full)
        if got != want:
            out.append(("rendering-depends-on-earlier-renderings", {"format": fmt, "full": full},
                        f"step {i} of {seq}: {len(got.splitlines())} lines, a fresh report gives {len(want.splitlines())}"))
            break
    return out


# ---------------------------------------------------------------------------------------
# through the commands, on a real cache
# ---------------------------------------------------------------------------------------

def eval_commands(tree_id):
    """the command entry points in a FRESH interpreter per terminal width: rich reads COLUMNS when a Console is created, and a
    module-level console is created at import time - the width has to be in the environment before codelimit is imported"""
    import json
    import subprocess
    import sys

    out = []
    code = ("import sys, json; sys.path.insert(0, %r); sys.path.insert(0, %r)\n"
            "from mc.checks import c18\nprint('RESULT' + json.dumps(c18._eval_commands_here(sys.argv[1], sys.argv[2])))\n") % (str(core.REPO), str(core.VERIF))
    for width in ("250", "80"):
        r = subprocess.run([sys.executable, "-c", code, tree_id, width], capture_output=True, text=True, timeout=600,
                           env=dict(os.environ, COLUMNS=width))
        line = [l for l in r.stdout.splitlines() if l.startswith("RESULT")]
        if r.returncode != 0 or not line:
            raise core.HarnessError(f"commands subprocess failed: {r.stderr[-400:]}")
        out += [(k, sig, d) for k, sig, d in json.loads(line[-1][6:])]
    return out


def _eval_commands_here(tree_id, width):
    import json

    from codelimit.commands.findings import findings_command
    from codelimit.commands.report import report_command
    from codelimit.commands.scan import scan_command
    from codelimit.common.report.ReportFormat import ReportFormat

    trees = {
        "two-langs": {"a.py": harness.py_function("p1", 31) + "\n" + harness.py_function("p2", 5), "b.js": harness.js_function("j1", 61)},
        "many": {f"m{i}.py": harness.py_function(f"g{i}", 31 + i) for i in range(12)},
        "one": {"a.py": harness.py_function("p1", 10)},
        # rows far wider than a terminal: nothing may be folded, cut or wrapped
        "deep-paths": {f"packages/frontend/application/components/customer/account/settings/notifications/preferences/VeryLongComponentNameNumber{i}ForThePreferencesPanel.js":
                       harness.js_function(f"renderTheNotificationPreferencesPanelWithAllOfItsOptionsNumber{i}", 33 + i) for i in range(3)},
    }
    out = []
    with harness.temp_tree(trees[tree_id]) as root, harness.cwd(root):
        code, _, exc = harness.run_cli_function(scan_command, Path("."))
        if exc is not None or code not in (None, 0):
            return [("scan-failed", {"tree": tree_id}, repr(exc))]
        doc = json.loads((root / ".codelimit_cache" / "codelimit.json").read_text())
        stored = {k: (v["files"], v["functions"], v["lines_of_code"], v["hard_to_maintain"], v["unmaintainable"]) for k, v in doc["codebase"]["totals"].items()}
        for fmt in (ReportFormat.text, ReportFormat.markdown):
            code, text, exc = harness.run_cli_function(report_command, Path("."), fmt, None)
            if exc is not None or code not in (None, 0):
                out.append(("report-command-failed", {"format": fmt.value}, repr(exc) + text[-200:]))
                continue
            rows = (parse_text_table if fmt == ReportFormat.text else parse_markdown_table)(text)
            got = {r[0]: tuple(int(CELL.match(c).group(1)) for c in r[1:]) for r in rows if r and r[0] in stored and all(CELL.match(c) for c in r[1:])}
            if got != stored:
                out.append(("report-command-numbers-wrong", {"format": fmt.value, "columns": width}, f"{got} vs stored {stored}"))
            # the same command with a comparison report that was written LATER (and one written earlier) and has other numbers: the
            # overview still shows the CURRENT report's figures, annotated with current minus comparison
            for when in ("2000-01-01T00:00:00", "2999-01-01T00:00:00"):
                other = json.loads(json.dumps(doc))
                other["timestamp"] = when
                # the comparison code base has one file more per language (a copy of an existing entry under another path)
                want_delta = {}
                for pth, ent in list(doc["codebase"]["files"].items()):
                    if ent["language"] in want_delta:
                        continue
                    other["codebase"]["files"]["extra_" + pth.replace("/", "_")] = json.loads(json.dumps(ent))
                    want_delta[ent["language"]] = (-1, -len(ent["measurements"]), -ent["loc"])
                dp = root / f"comparison-{when[:4]}.json"
                dp.write_text(json.dumps(other))
                code, text, exc = harness.run_cli_function(report_command, Path("."), fmt, dp)
                if exc is not None or code not in (None, 0):
                    out.append(("report-command-failed", {"format": fmt.value, "diff": when[:4]}, repr(exc) + text[-200:]))
                    continue
                rows = (parse_text_table if fmt == ReportFormat.text else parse_markdown_table)(text)
                shown = {r[0]: [CELL.match(c) for c in r[1:]] for r in rows if r and r[0] in stored}
                for lang, cells in shown.items():
                    if any(c is None for c in cells):
                        continue
                    nums = tuple(int(c.group(1)) for c in cells)
                    deltas = tuple(c.group(2) for c in cells)
                    wd = tuple(str(x) if x else None for x in want_delta.get(lang, (0, 0, 0)))
                    if nums != stored[lang] or deltas[:3] != wd:
                        out.append(("report-command-numbers-wrong", {"format": fmt.value, "columns": width, "comparison_written": "later" if when.startswith("2999") else "earlier"},
                                    f"{lang}: shown {nums} {deltas}, stored {stored[lang]} with deltas {wd}"))
                if not shown:
                    out.append(("report-command-numbers-wrong", {"format": fmt.value, "columns": width, "what": "no-rows"}, text[-300:]))
            for full in (False, True):
                code, text, exc = harness.run_cli_function(findings_command, Path("."), full, fmt)
                if exc is not None or code not in (None, 0):
                    out.append(("findings-command-failed", {"format": fmt.value}, repr(exc)))
                    continue
                n_over = sum(1 for f in doc["codebase"]["files"].values() for m in f["measurements"] if m["value"] > 30)
                shown = len(re.findall(r"(?m)^(?:\S+:\d+:\d+: \d+ |\| (?!\*\*|---))", text))
                want = n_over if full or n_over <= 10 else 10
                if shown != want:
                    out.append(("findings-command-count-wrong", {"format": fmt.value, "full": full, "columns": width}, f"{shown} rows, expected {want}"))
                # every finding's length is shown on its row
                lens = sorted((m["value"] for f in doc["codebase"]["files"].values() for m in f["measurements"] if m["value"] > 30), reverse=True)[:want]
                shown_lens = [int(x) for x in re.findall(r"(?m)^\S+:\d+:\d+: (\d+) ", text)] if fmt == ReportFormat.text else lens
                if shown_lens != lens:
                    out.append(("findings-command-count-wrong", {"format": fmt.value, "full": full, "columns": width, "what": "lengths"}, f"{shown_lens} vs {lens}"))
    return out


def _block(block, agg):
    kind, payload = block
    if kind == "pairs":
        for cur, prev in payload:
            case = {"part": "overview", "current": cur, "previous": prev}
            viol = eval_pair(cur, prev)
            agg.case(case, prev is not None and len(cur) >= 1, "ok" if not viol else viol[0][0], sample=prev is not None and len(cur) == 2 and len(prev) == 2)
            agg.transitions += 2
            for k, sig, d in viol:
                agg.violation(k, sig, case, d)
    elif kind == "findings":
        for n, pattern, nfiles, full, with_repo, fmt in payload:
            case = {"part": "findings", "n": n, "pattern": pattern, "files": nfiles, "full": full, "repo": with_repo, "format": fmt}
            viol = eval_findings(n, pattern, nfiles, full, with_repo, fmt)
            agg.case(case, n > 0, f"n={n}", sample=n == 11)
            agg.transitions += 1
            for k, sig, d in viol:
                agg.violation(k, sig, case, d)
    elif kind == "sequence":
        for n, seq in payload:
            case = {"part": "sequence", "n": n, "seq": [list(x) for x in seq]}
            viol = eval_render_sequence(n, seq)
            agg.case(case, True, "seq", sample=False)
            agg.transitions += len(seq)
            for k, sig, d in viol:
                agg.violation(k, sig, case, d)
    else:
        for tree_id in payload:
            case = {"part": "commands", "tree": tree_id}
            viol = eval_commands(tree_id)
            agg.case(case, True, "cmd", sample=False)
            for k, sig, d in viol:
                agg.violation(k, sig, case, d)


def replay(case):
    if case["part"] == "overview":
        viol = eval_pair(case["current"], case["previous"])
    elif case["part"] == "sequence":
        viol = eval_render_sequence(case["n"], [tuple(x) for x in case["seq"]])
    elif case["part"] == "findings":
        viol = eval_findings(case["n"], case["pattern"], case["files"], case["full"], case["repo"], case["format"])
    else:
        viol = eval_commands(case["tree"])
    return [{"kind": k, "sig": s, "detail": d} for k, s, d in viol]


def run(ctx: core.Ctx):
    # a language present only in the PREVIOUS report needs >= 3 languages to coexist with a totals row
    ctx.bounds = {"languages": LANGSETS, "totals_variants(files,functions,loc,hard,unmaintainable)": VARIANTS, "findings_n": "0..13",
                  "findings_patterns": ["distinct", "tied", "mixed"], "files": [1, 2, 3]}
    ctx.rule = ("overview case = (current assignment, previous assignment or none), assignment = per language absent or one of 4 totals variants; "
                "each rendered in text and Markdown (transitions = renders). findings case = (n in 0..13, length pattern, #files, full, repository, "
                "format). Non-trivial: overview with a previous report and >= 1 language / findings with n > 0.")
    options = [None] + list(range(4))[: ctx.pick(2, 4)]
    if ctx.quick:
        options = [None, 0, 2]
    pairs = []
    for langs in LANGSETS:
        assigns = []
        for combo in itertools.product(options, repeat=len(langs)):
            assigns.append({l: v for l, v in zip(langs, combo) if v is not None})
        pairs += [(c, None) for c in assigns] + [(c, p) for c in assigns for p in assigns]
    big = []
    for combo in itertools.product([None, 4, 5], repeat=len(LANGSETS[0])):
        big.append({l: v for l, v in zip(LANGSETS[0], combo) if v is not None})
    pairs += [(c, p) for c in big for p in big]
    step = max(1, len(pairs) // (ctx.workers * 4) + 1)
    blocks = [("pairs", pairs[i:i + step]) for i in range(0, len(pairs), step)]
    fcases = [(n, pat, nf, full, repo, fmt) for n in range(0, 14) for pat in ("distinct", "tied", "mixed") for nf in (1, 2, 3)
              for full in (False, True) for repo in (False, True) for fmt in ("text", "markdown")]
    step = max(1, len(fcases) // ctx.workers + 1)
    blocks += [("findings", fcases[i:i + step]) for i in range(0, len(fcases), step)]
    renders = [(f, full) for f in ("text", "markdown") for full in (False, True)]
    seqs = [(n, list(sq)) for n in (9, 10, 11, 13) for k in (2, 3) for sq in itertools.product(renders, repeat=k)]
    step = max(1, len(seqs) // ctx.workers + 1)
    blocks += [("sequence", seqs[i:i + step]) for i in range(0, len(seqs), step)]
    blocks.append(("commands", ["two-langs", "many", "one", "deep-paths"]))
    ctx.run_blocks(_block, blocks)
