"""C19 - summary percentages and verdict are sane.

Every realisable quality profile (p0,p1,p2,p3) with total <= T is realised as a real
measurement list in a real Codebase/Report and pushed through
Report.quality_profile_percentage; for all tuples up to a (smaller) total the two
print_summary renderers are run on a recording console and the shown numbers and the
verdict line are parsed back.
"""
from __future__ import annotations

import re

from mc import core, harness

ID = "C19"
LEVEL = "exploration"
TECHNIQUE = "exhaustive enumeration of all realisable quality profiles up to a total, through the real percentage code and both renderers"
LEVEL_TEXT = ("Three exhaustive families, no sampling: all realisable profiles with total <= T as real measurement lists; ALL 4-tuples up to "
              "a total and all one-dominant tuples up to a larger bound, pushed through the real percentage code on one long-lived Report "
              "(equal totals consecutively); a structured family with one dominant category up to 10^7. The rendered summary (text and "
              "Markdown) is parsed back and the verdict checked.")
LEVEL_NOTE = "Bounds in evidence.bounds. 'True share' is exact rational arithmetic. Families 2-3 substitute Report.quality_profile (a one-line sum) to reach tuples no list of function lengths realises - the property quantifies over all 4-tuples. A fourth family drives ONE Codebase through every sequence of <= 4/5 add_file / aggregate / summary operations; subsets are also rendered on a 60-column console and as whole reports next to an opposite-verdict comparison report."


def realisable(kind: int, p: int) -> bool:
    if p == 0:
        return True
    if kind == 0:
        return True
    if kind == 1:
        return 16 <= p <= 30 or p >= 32
    if kind == 2:
        return 31 <= p <= 60 or p >= 62
    return p >= 61


def decompose(kind: int, p: int):
    """a list of function lengths of category `kind` summing to p"""
    if p == 0:
        return []
    if kind == 0:
        return [15] * (p // 15) + ([p % 15] if p % 15 else [])
    lo, hi = {1: (16, 30), 2: (31, 60)}.get(kind, (61, 10 ** 9))
    n = 1
    while n * hi < p:
        n += 1
    assert n * lo <= p, (kind, p)
    base, rem = divmod(p, n)
    return [base + 1] * rem + [base] * (n - rem)


def make_report(profile):
    from codelimit.common.report.Report import Report

    lengths = []
    for k, p in enumerate(profile):
        lengths += decompose(k, p)
    cb = harness.codebase([("a.py", "Python", lengths)] if lengths else [])
    cb.aggregate()
    return Report(cb)


def check_numbers(profile, shown):
    """shown = (ev, h, u)"""
    from fractions import Fraction

    out = []
    total = sum(profile)
    ev, h, u = shown
    for name, v in (("easy-or-verbose", ev), ("hard-to-maintain", h), ("unmaintainable", u)):
        if not isinstance(v, int) or isinstance(v, bool):
            out.append(("percentage-not-integer", {"which": name}, f"{name} = {v!r}"))
            return out
        if not (0 <= v <= 100):
            out.append(("percentage-out-of-range", {"which": name}, f"{name} = {v} for profile {profile}"))
    if total == 0:
        # nothing measured: property only fixes range/sum; "sum to 100" is read for non-empty code
        return out
    if ev + h + u != 100:
        out.append(("percentages-do-not-sum-to-100", {}, f"{ev}+{h}+{u} for profile {profile}"))
    shares = (Fraction(100 * (profile[0] + profile[1]), total), Fraction(100 * profile[2], total), Fraction(100 * profile[3], total))
    for name, v, s in zip(("easy-or-verbose", "hard-to-maintain", "unmaintainable"), shown, shares):
        if abs(v - s) > 2:
            out.append(("percentage-off-by-more-than-two", {"which": name}, f"{name} shows {v}, true share {float(s):.3f} for {profile}"))
    for name, v, s in zip(("hard-to-maintain", "unmaintainable"), (h, u), shares[1:]):
        if s > Fraction(1, 1000) and v == 0:
            out.append(("nonzero-share-shown-as-zero", {"which": name}, f"{name} share {float(s):.5f}% shows 0 for {profile}"))
    return out


PCT = re.compile(r"(-?\d+)%")


def check_render(profile, shown, report):
    from codelimit.common.report import format_markdown, format_text

    out = []
    ev, h, u = shown
    expect_refactor = u > 0 or h > 20
    # the width of the console is part of the environment: wide always, a narrow one (a split pane, a CI log column) for every 10th total
    widths = (250, 60) if sum(profile) % 10 == 0 else (250,)
    for fmt, mod, width in [(f, m, w) for w in widths for f, m in (("text", format_text), ("markdown", format_markdown))]:
        # a console whose stream is not UTF (LANG=C, a legacy code page) for totals that are multiples of 10 and land on the 20 % boundary region
        text = harness.render(mod.print_summary, report, console_pos=0, width=width, ascii_stream=(width == 60))
        lines = [l for l in text.splitlines() if l.strip()]
        row = None
        for l in lines:
            nums = PCT.findall(l)
            if len(nums) == 3 and "refactoring" not in l:
                row = tuple(int(x) for x in nums)
                break
        if row != (ev, h, u):
            out.append(("rendered-percentages-differ", {"format": fmt}, f"{fmt}: row {row} but quality_profile_percentage gives {(ev, h, u)} for {profile}"))
        verdict = [l for l in lines if "refactoring" in l.lower()]
        if len(verdict) != 1:
            out.append(("verdict-line-missing", {"format": fmt}, f"{fmt}: {verdict}"))
            continue
        says_necessary = "refactoring necessary" in verdict[0] and "no refactoring necessary" not in verdict[0]
        says_not = "no refactoring necessary" in verdict[0]
        if says_necessary == says_not:
            out.append(("verdict-unparseable", {"format": fmt}, verdict[0]))
        elif says_necessary != expect_refactor:
            out.append(("verdict-wrong", {"format": fmt, "says_necessary": says_necessary, **({"console_width": width} if width != 250 else {})},
                        f"{fmt}: shown (ev,h,u)={(ev, h, u)} profile {profile} verdict {verdict[0].strip()!r}"))
    if sum(profile) % 20 == 0 and sum(profile) > 0:
        # the whole report next to a comparison report whose verdict is the OPPOSITE one: the summary is about the current report
        other = _other_report(not expect_refactor)
        for fmt, mod in (("text", format_text), ("markdown", format_markdown)):
            text = harness.render(mod.print_report, report, other, console_pos=0)
            verdict = [l for l in text.splitlines() if "refactoring" in l.lower()]
            says_necessary = [("refactoring necessary" in v and "no refactoring necessary" not in v) for v in verdict]
            if len(verdict) != 1 or says_necessary[0] != expect_refactor:
                out.append(("verdict-wrong", {"format": fmt, "with_comparison_report": True},
                            f"{fmt} report with a comparison report: shown (ev,h,u)={(ev, h, u)} profile {profile} verdict lines {[v.strip() for v in verdict]}"))
    return out


_OTHER = {}


def _other_report(refactor: bool):
    if refactor not in _OTHER:
        from codelimit.common.report.Report import Report

        cb = harness.codebase([("prev.py", "Python", [70, 70, 5] if refactor else [5, 5, 5, 5])])
        cb.aggregate()
        _OTHER[refactor] = Report(cb)
    return _OTHER[refactor]


def eval_profile(profile, render: bool):
    report = make_report(profile)
    q = report.quality_profile_percentage()
    e, v, h, u = q
    shown = (e + v, h, u)
    viol = check_numbers(profile, shown)
    if not viol and report.quality_profile() != list(profile):
        # the list of function lengths was built to have exactly this profile under the thresholds 15/30/60 (mc.harness.category)
        viol.append(("lines-attributed-to-the-wrong-category", {}, f"functions realising {profile} are summarised as {report.quality_profile()}"))
    if render:
        viol += check_render(profile, shown, report)
    return q, viol


def profiles(T, p3, p2):
    for p1 in range(0, T - p3 - p2 + 1):
        if not realisable(1, p1):
            continue
        for p0 in range(0, T - p3 - p2 - p1 + 1):
            yield (p0, p1, p2, p3)


_SHARED = {}


def shared_report():
    """ONE long-lived Report whose quality_profile is substituted per case: the property quantifies over all 4-tuples
    (not only those some list of function lengths realises), and a report object may be asked for its summary more than
    once while the code base changes (a memo keyed on too little would show here)."""
    if "r" not in _SHARED:
        _SHARED["r"] = make_report((0, 0, 0, 0))
    return _SHARED["r"]


def eval_stub(profile, render):
    rep = shared_report()
    rep.quality_profile = lambda p=tuple(profile): list(p)
    q = rep.quality_profile_percentage()
    e, v, h, u = q
    shown = (e + v, h, u)
    viol = check_numbers(profile, shown)
    if render:
        viol += check_render(profile, shown, rep)
    return q, viol


def structured_large(scale):
    """near-tie / one-dominant-category shapes at large totals: every category takes a value from a small menu, one
    category is dominant"""
    small = [0, 1, 2, 16, 31, 61, scale // 200, scale // 100, scale // 99]
    for dom in range(4):
        for combo in __import__("itertools").product(small, repeat=3):
            prof = list(combo)
            prof.insert(dom, scale)
            yield tuple(prof)


def family_all(t):
    """every 4-tuple with sum exactly t (consecutive cases share the total on purpose)"""
    for p3 in range(0, t + 1):
        for p2 in range(0, t - p3 + 1):
            for p1 in range(0, t - p3 - p2 + 1):
                yield (t - p3 - p2 - p1, p1, p2, p3)


def family_dominant(dom_max, small_max):
    """at most one category above small_max (the dominant one, up to dom_max); ordered by total"""
    import itertools

    for d in range(small_max + 1, dom_max + 1):
        for dom in range(4):
            for combo in itertools.product(range(small_max + 1), repeat=3):
                prof = list(combo)
                prof.insert(dom, d)
                yield tuple(prof)


MAX_VIOLATIONS_PER_BLOCK = 60  # a block that is already this wrong is not explored further (a change that makes every further case slower must not hang the run)


def _block_stub(block, agg):
    kind = block[0]
    if kind == "all":
        it, fam, render_rule = family_all(block[1]), "all-tuples", (lambda prof: sum(prof) % 5 == 0 and prof[0] % 3 == 0)
    elif kind == "dominant":
        lo, hi, small = block[1:]
        it, fam, render_rule = (p for p in family_dominant(hi, small) if max(p) > lo), "one-dominant", (lambda prof: max(prof) % 50 == 0)
    else:
        it, fam, render_rule = structured_large(block[1]), "large-structured", (lambda prof: True)
    prev = None
    first = None
    for prof in it:
        if first is None or sum(first) != sum(prof):
            first = prof
        render = render_rule(prof)
        q, viol = eval_stub(prof, render)
        agg.case(list(prof), sum(1 for x in prof if x) >= 2, q, sample=prof[3] == 61)
        agg.transitions += 1
        for kd, sig, d in viol:
            agg.violation(kd, dict(sig, family=fam), {"profile": list(prof), "render": render, "stub": True, "prev": [list(first), list(prev)] if prev else None, "family": fam}, d)
        prev = prof
        if sum(agg.vcount.values()) > MAX_VIOLATIONS_PER_BLOCK:
            agg.extra["blocks_cut_short_after_many_violations"] += 1
            return


# ---------------------------------------------------------------------------------------
# (4) one Codebase object over a history of add_file / aggregate / summary operations
# ---------------------------------------------------------------------------------------

HIST_FILES = [("top.py", [10, 10, 10, 10, 10, 10, 10, 10, 10, 10]),      # easy only
              ("d/mid.py", [12, 12, 12, 45]),                            # some hard-to-maintain
              ("d/e/deep.py", [20, 35]),                                 # verbose + hard
              ("d/e/f/big.py", [8, 8, 8, 8, 8, 8, 8, 8, 8, 8, 8, 8, 8, 8, 8, 8, 8, 8, 8, 8, 8, 8, 8, 8, 8, 8, 8, 8, 8, 8, 8, 8, 8, 8, 8, 8, 8, 8, 8, 8, 61])]


def histories(max_len):
    """every sequence of <= max_len operations over {add file i (each at most once), aggregate, ask for the summary}"""
    ops = [("add", i) for i in range(len(HIST_FILES))] + [("aggregate",), ("summary",)]

    def rec(prefix):
        yield prefix
        if len(prefix) == max_len:
            return
        for op in ops:
            if op[0] == "add" and op in prefix:
                continue
            yield from rec(prefix + [op])
    for h in rec([]):
        if any(o[0] == "add" for o in h):
            yield h


def eval_history(hist):
    """after the history the summary must show the true shares of what has been added so far (also at every 'summary' step)"""
    from codelimit.common.Codebase import Codebase
    from codelimit.common.report.Report import Report

    cb = Codebase("/root")
    rep = Report(cb)
    true = [0, 0, 0, 0]
    viol = []
    q = None
    for step, op in enumerate(list(hist) + [("summary",)]):
        if op[0] == "add":
            path, lengths = HIST_FILES[op[1]]
            cb.add_file(harness.file_entry(path, "Python", lengths))
            for L in lengths:
                true[harness.category(L)] += L
        elif op[0] == "aggregate":
            cb.aggregate()
        else:
            for which, r in (("same-report", rep), ("new-report", Report(cb))):
                q = r.quality_profile_percentage()
                shown = (q[0] + q[1], q[2], q[3])
                for k, sig, d in check_numbers(tuple(true), shown) + check_render(tuple(true), shown, r):
                    viol.append((k, dict(sig, family="codebase-history", report=which), f"after {hist[:step]}: {d}"))
    return q, viol


def _block_history(block, agg):
    _, max_len, shard, nshards = block
    for i, h in enumerate(histories(max_len)):
        if i % nshards != shard:
            continue
        q, viol = eval_history(h)
        agg.case({"history": h}, sum(1 for o in h if o[0] != "add") >= 1, tuple(q), sample=len(h) == max_len and i % 97 == 0)
        agg.transitions += len(h) + 1
        for kind, sig, detail in viol:
            agg.violation(kind, sig, {"history": h}, detail)


def _dispatch(block, agg):
    if block[0] == "history":
        return _block_history(block, agg)
    if block[0] in ("all", "large", "dominant"):
        _block_stub(block, agg)
    else:
        _block(block, agg)


def _block(block, agg):
    T, Tr, p3, p2 = block
    for prof in profiles(T, p3, p2):
        render = sum(prof) <= Tr
        q, viol = eval_profile(prof, render)
        nontrivial = sum(1 for x in prof if x) >= 2
        agg.case(list(prof), nontrivial, q, sample=nontrivial and prof[3] > 0 and prof[2] > 0)
        agg.transitions += 1
        if render:
            agg.extra["rendered"] += 1
        for kind, sig, detail in viol:
            agg.violation(kind, sig, {"profile": list(prof), "render": render}, detail)
        if sum(agg.vcount.values()) > MAX_VIOLATIONS_PER_BLOCK:
            agg.extra["blocks_cut_short_after_many_violations"] += 1
            return


def replay(case):
    if "history" in case:
        _, viol = eval_history([tuple(o) for o in case["history"]])
        return [{"kind": k, "sig": s, "detail": d} for k, s, d in viol]
    if case.get("stub"):
        _SHARED.clear()
        for pv in case.get("prev") or []:
            eval_stub(tuple(pv), case.get("render", True))  # summaries asked for earlier on the same Report (first of this total, previous)
        _, viol = eval_stub(tuple(case["profile"]), case.get("render", True))
        return [{"kind": k, "sig": dict(s, family=case.get("family", "all-tuples")), "detail": d} for k, s, d in viol]
    _, viol = eval_profile(tuple(case["profile"]), case.get("render", True))
    return [{"kind": k, "sig": s, "detail": d} for k, s, d in viol]


def run(ctx: core.Ctx):
    T = ctx.pick(110, 200)
    Tr = ctx.pick(93, 110)
    ctx.bounds = {"max_total": T, "max_total_rendered": Tr}
    ctx.rule = ("three families. (1) realised:  every 4-tuple (easy, verbose, hard, unmaintainable lines) with sum <= max_total that some list of function "
                "lengths realises (verbose in {0}U[16,30]U[32,..), hard in {0}U[31,60]U[62,..), unmaintainable in {0}U[61,..)), each "
                "realised as real measurements in a real Report; rendered through both print_summary implementations when sum <= "
                "max_total_rendered. (2) all-tuples: EVERY 4-tuple of non-negative integers with sum <= all_tuples_max_total, and one-dominant: every tuple with three "
                "entries <= max_other and one entry up to max_dominant; both pushed through the real percentage code on ONE long-lived Report whose quality_profile is "
                "substituted per case, enumerated by total so that equal-total profiles follow each other on the same object. (3) large-structured: one dominant category at 10^3..10^7 x every combination of a 9-value menu for the other three, rendered. "
                "(4) codebase-history: ONE Codebase (files at folder depths 0..3 with different category mixes) under every sequence of <= max_operations operations "
                "{add_file, aggregate, summary}; at every summary - asked of a Report created before the history and of a fresh one - the shown numbers must be "
                "the true shares of the functions added so far. Non-trivial: at least two non-empty categories. Outcome = the shown quadruple.")
    ctx.assumptions = ["percentages depend on the profile only (Report.quality_profile is recomputed and asserted per case)"]
    blocks = []
    for p3 in range(0, T + 1):
        if not realisable(3, p3):
            continue
        for p2 in range(0, T - p3 + 1):
            if realisable(2, p2):
                blocks.append((T, Tr, p3, p2))
    Ta = ctx.pick(44, 72)
    dom = ctx.pick((420, 3), (2400, 4))
    ctx.bounds["all_tuples_max_total"] = Ta
    ctx.bounds["one_dominant(max_dominant, max_other)"] = list(dom)
    ctx.bounds["structured_large_scales"] = [1000, 10 ** 4, 10 ** 5, 10 ** 6, 10 ** 7]
    for t in range(0, Ta + 1):
        blocks.append(("all", t))
    step = 40
    for lo in range(dom[1], dom[0], step):
        blocks.append(("dominant", lo, min(dom[0], lo + step), dom[1]))
    for scale in ctx.bounds["structured_large_scales"]:
        blocks.append(("large", scale))
    hl = ctx.pick(4, 5)
    ctx.bounds["codebase_history"] = {"max_operations": hl, "operations": ["add_file (4 files at depths 0..3, each once)", "aggregate", "summary"], "histories": sum(1 for _ in histories(hl))}
    for sh in range(ctx.workers):
        blocks.append(("history", hl, sh, ctx.workers))
    ctx.run_blocks(_dispatch, blocks)
