"""C07 - totals, profiles and the folder tree always agree with the measurements.

E-seq over Codebase.add_file histories: a state is the *set* of (path, measurement variant)
added so far; every insertion order of every set of <= N files from the path pool is replayed
on a fresh real Codebase; the reference aggregation R-agg is compared in every state, and all
orders reaching the same set must be observationally equal (merge validation).
"""
from __future__ import annotations

import itertools
import json

from mc import core, harness
from mc.harness import category

ID = "C07"
LEVEL = "model_checking"
TECHNIQUE = "explicit-state exploration of all add_file histories (all insertion orders, states merged by file set) against a reference aggregation"
LEVEL_TEXT = ("All sets of <= N files over a pool of 8 paths (depth 0-3, shared prefixes, equal basenames) x 4 measurement variants are "
              "reached through every insertion order on the real Codebase; in every state totals, file/folder profiles, tree membership "
              "and the JSON document are compared with a recomputation from the plain file list, and all orders of a set must agree.")
LEVEL_NOTE = "Bounds: path pool and variants as in evidence.bounds, N files. Trusted: R-agg (mc/checks/c07.py: reference())."

# depth 0-3, shared prefixes, same basename in different folders, and top-level folder names that sort before and
# after "./" (the root key) in every ordering a sorted() pass could use: '-' < '.' < '/' < '0' < 'A' < '_' < 'a' < '~'
PATHS = ["a.py", "b.js", "d/a.py", "d/b.js", "d/e/a.py", "d/e/f/a.java", "e/a.py", "d2/e/a.py",
         "-l/a.py", "+s/e/a.py", "0/a.py", "~t/a.py",
         # two DIFFERENT paths that are equal after Unicode normalisation (NFC vs NFD spelling of the same name)
         "u/caf\u00e9.py", "u/cafe\u0301.py",
         # folder names ENDING in a dot (only a leading dot hides a folder) and a C / C++ / header mix
         "misc./a.py", "d/v2./b.js", "c/x.c", "c/y.cpp", "c/z.h"]
# pairwise distinct counts and sums per category; lengths ON the category bounds (15, 30, 60) included
VARIANTS = [[], [15], [16, 30, 31], [60, 61, 62, 5, 40, 45, 30]]
LANG = {"py": "Python", "js": "JavaScript", "java": "Java", "c": "C", "cpp": "C++", "h": "C"}


def lang_of(path):
    return LANG[path.rsplit(".", 1)[1]]


def reference(files, lang_map=None):
    """files: list of (path, lengths) -> expected observable. lang_map: the language each entry ended up with (a codebase may
    relabel entries; what must hold is that every language's totals describe the entries carrying that language)"""
    totals = {}
    for p, ls in files:
        t = totals.setdefault((lang_map or {}).get(p) or lang_of(p), [0, 0, 0, 0, 0])
        t[0] += 1
        t[1] += sum(ls)
        t[2] += len(ls)
        t[3] += sum(1 for L in ls if category(L) == 2)
        t[4] += sum(1 for L in ls if category(L) == 3)
    tree = {"./": [set(), [0, 0, 0, 0]]}
    for p, ls in files:
        parts = p.split("/")
        prof = [0, 0, 0, 0]
        for L in ls:
            prof[category(L)] += L
        for depth in range(len(parts)):
            key = "./" if depth == 0 else "/".join(parts[:depth]) + "/"
            node = tree.setdefault(key, [set(), [0, 0, 0, 0]])
            node[1] = [a + b for a, b in zip(node[1], prof)]
            node[0].add(parts[depth] + ("/" if depth < len(parts) - 1 else ""))
    return {"totals": {k: tuple(v) for k, v in totals.items()},
            "tree": {k: (sorted(v[0]), v[1]) for k, v in tree.items()}}


def observe(files):
    """replay the history on a fresh real Codebase; returns (observable, violations)"""
    from codelimit.common.Codebase import Codebase
    from codelimit.common.report.Report import Report
    from codelimit.common.report.ReportWriter import ReportWriter
    from codelimit.common.ScanTotals import ScanTotals

    out = []
    cb = Codebase("/r")
    if cb.all_measurements() or cb.total_loc():
        out.append(("measurement-view-stale-or-wrong", {"view": "empty"}, "empty codebase reports measurements"))
    for i, (p, ls) in enumerate(files):
        # files with exactly three functions have them NESTED in each other (closures, local helpers); all others side by side
        cb.add_file(harness.file_entry(p, lang_of(p), ls, nested=len(ls) == 3))
        # the views that need no aggregate() are read after EVERY step (a memo filled here must not go stale)
        so_far = [L for _, l2 in files[: i + 1] for L in l2]
        if sorted(m.value for m in cb.all_measurements()) != sorted(so_far) or cb.total_loc() != sum(so_far) or len(cb.all_files()) != i + 1:
            out.append(("measurement-view-stale-or-wrong", {"view": "all_measurements"}, f"after adding {p} (step {i}): {sorted(m.value for m in cb.all_measurements())} expected {sorted(so_far)}"))
            break
    try:
        cb.aggregate()
    except Exception as e:  # noqa - building the folder tree of a well-formed set of files must not fail
        return {"tree": {}, "totals": {}}, out + [("aggregate-raises", {"error": type(e).__name__}, f"aggregate() raises {e!r} for {[p for p, _ in files][-6:]}")]
    from codelimit.common.report.Report import Report as _R

    prof = [0, 0, 0, 0]
    for _, ls in files:
        for L in ls:
            prof[category(L)] += L
    if _R(cb).quality_profile() != prof:
        out.append(("measurement-view-stale-or-wrong", {"view": "quality_profile"}, f"{_R(cb).quality_profile()} expected {prof}"))
    obs_totals = {k: (t.files, t.loc, t.functions, t.hard_to_maintain, t.unmaintainable) for k, t in cb.totals.items()}
    obs_tree = {}
    for key, folder in cb.tree.items():
        names = [e.name for e in folder.entries]
        if len(names) != len(set(names)):
            out.append(("tree-duplicate-entry", {"view": "tree"}, f"{key}: {names}"))
        obs_tree[key] = (sorted(names), list(folder.profile))
    ref = reference(files, {p: e.language for p, e in cb.files.items()})
    if obs_totals != ref["totals"]:
        out.append(("language-totals-wrong", {"view": "totals"}, f"{obs_totals} != {ref['totals']}"))
    if obs_tree != ref["tree"]:
        bad = sorted(set(obs_tree) ^ set(ref["tree"])) or [k for k in ref["tree"] if obs_tree[k] != ref["tree"][k]]
        what = "keys" if set(obs_tree) != set(ref["tree"]) else ("entries" if any(obs_tree[k][0] != ref["tree"][k][0] for k in ref["tree"]) else "profile")
        out.append(("folder-tree-wrong", {"view": "tree", "what": what}, f"at {bad[:3]}: got {[obs_tree.get(k) for k in bad[:3]]} expected {[ref['tree'].get(k) for k in bad[:3]]}"))
    st = ScanTotals(cb.totals)
    grand = (st.total_files(), st.total_loc(), st.total_functions(), st.total_hard_to_maintain(), st.total_unmaintainable())
    want = tuple(sum(v[i] for v in ref["totals"].values()) for i in range(5))
    if grand != want:
        out.append(("grand-totals-wrong", {"view": "scan-totals"}, f"{grand} != {want}"))
    for p, ls in files:
        e = cb.files.get(p)
        prof = [0, 0, 0, 0]
        for L in ls:
            prof[category(L)] += L
        if e is None or e.profile() != prof or sum(e.profile()) != e.loc:
            out.append(("file-profile-wrong", {"view": "file"}, f"{p}: {e and e.profile()} expected {prof}"))
    if len(cb.files) != len(files):
        out.append(("files-view-wrong", {"view": "files"}, f"{sorted(cb.files)}"))
    # the same numbers in the written document
    try:
        doc = json.loads(ReportWriter(Report(cb)).to_json())["codebase"]
        j_tot = {k: (v["files"], v["lines_of_code"], v["functions"], v["hard_to_maintain"], v["unmaintainable"]) for k, v in doc["totals"].items()}
        j_tree = {k: (sorted(v["entries"]), v["profile"]) for k, v in doc["tree"].items()}
        if j_tot != ref["totals"] or j_tree != ref["tree"]:
            out.append(("json-view-wrong", {"view": "json"}, f"totals {j_tot} tree {j_tree}"))
        for p, ls in files:
            f = doc["files"].get(p)
            if f is None or f["loc"] != sum(ls) or [m["value"] for m in f["measurements"]] != ls or f["language"] != lang_of(p):
                out.append(("json-view-wrong", {"view": "json-files"}, f"{p}: {f}"))
    except Exception as e:  # noqa
        out.append(("json-view-wrong", {"view": "json", "error": type(e).__name__}, repr(e)))
    return {"totals": obs_totals, "tree": obs_tree}, out


def large_history(n, layout):
    """a codebase of n+ folders in directory-walk order, so that a folder is asked for again after many other folders"""
    v = lambda i: VARIANTS[i % len(VARIANTS)]
    hist = [("pkg/core.py", v(2))]
    if layout == "walk":
        hist += [(f"pkg/gen/m{i:03d}/x.py", v(i)) for i in range(n)]
        hist += [("pkg/util/x.py", v(1)), ("pkg/late.py", v(3)), ("pkg/gen/m000/y.js", v(2)), ("top.py", v(1)),
                 # folder names that repeat along one path, or are a prefix of an earlier component
                 ("app/core/plugins/core/loader.py", v(2)), ("app/core/x.py", v(1)), ("lib/utils/util/helpers.py", v(3)), ("lib/util/lib/util/z.js", v(2))]
    else:  # two distant folders alternate while many others are created in between
        for i in range(n):
            hist.append((f"a/b{i:03d}/c/x.py", v(i)))
            if i % 40 == 39:
                hist.append((f"a/b000/c/y{i}.py", v(i + 1)))
                hist.append((f"z/late{i}.js", v(i + 2)))
    return hist


def _block(block, agg):
    if isinstance(block, tuple) and block and block[0] == "large":
        _, n, layout = block
        hist = large_history(n, layout)
        obs, viol = observe(hist)
        case = {"large": [n, layout]}
        agg.case(case, True, f"{len(obs['tree'])} folders/{len(obs['totals'])} languages", sample=False)
        agg.transitions += len(hist)
        agg.states.add(core.digest(["large", n, layout]))
        for k, sig, d in viol:
            agg.violation(k, dict(sig, family="many-folders"), case, d[:600])
        return
    combos = block
    for paths, variants in combos:
        fileset = list(zip(paths, [VARIANTS[v] for v in variants]))
        canon = core.digest(sorted((p, ls) for p, ls in fileset))
        agg.states.add(canon)
        first = None
        for order in itertools.permutations(range(len(fileset))):
            hist = [fileset[i] for i in order]
            obs, viol = observe(hist)
            case = {"history": [[p, ls] for p, ls in hist]}
            agg.case(case, len(hist) >= 2, f"{len(obs['tree'])} folders/{len(obs['totals'])} languages", sample=len(hist) >= 3)
            agg.transitions += len(hist)
            for k, sig, d in viol:
                agg.violation(k, sig, case, d)
            if first is None:
                first = (obs, case)
            elif obs != first[0]:
                agg.violation("insertion-order-observable", {"view": "merge"}, {"history": case["history"], "other": first[1]["history"]},
                              "two insertion orders of the same file set give different totals/tree")


def replay(case):
    if "large" in case:
        _, viol = observe(large_history(*case["large"]))
        return [{"kind": k, "sig": dict(s, family="many-folders"), "detail": d[:600]} for k, s, d in viol]
    _, viol = observe([(p, ls) for p, ls in case["history"]])
    out = [{"kind": k, "sig": s, "detail": d} for k, s, d in viol]
    if "other" in case:
        a, _ = observe([(p, ls) for p, ls in case["history"]])
        b, _ = observe([(p, ls) for p, ls in case["other"]])
        if a != b:
            out.append({"kind": "insertion-order-observable", "sig": {"view": "merge"}, "detail": ""})
    return out


def run(ctx: core.Ctx):
    N = ctx.pick(3, 4)
    ctx.bounds = {"paths": PATHS, "variants": VARIANTS, "max_files": N}
    ctx.rule = ("states = distinct sets of (path, measurement variant) with <= N files; transitions = add_file calls replayed; a case = one "
                "insertion order (history) of one set, replayed on a fresh real Codebase + aggregate() + ReportWriter; non-trivial: >= 2 files. "
                "All permutations of every set are executed and must be observationally equal.")
    ctx.assumptions = ["aggregate() is called exactly once per codebase, as scan and the report reader do"]
    combos = []
    for n in range(0, N + 1):
        for paths in itertools.combinations(PATHS, n):
            # 4 files: two variants per file (otherwise 495 x 256 x 24 histories)
            vr = range(len(VARIANTS)) if n <= 2 else ((2, 3) if n == 3 else (2,))
            for variants in itertools.product(vr, repeat=n):
                combos.append((paths, variants))
    step = max(1, len(combos) // (ctx.workers * 4) + 1)
    blocks = [combos[i:i + step] for i in range(0, len(combos), step)]
    sizes = ctx.pick([130, 300], [65, 130, 257, 300, 1100])
    ctx.bounds["many_folders"] = {"folders": sizes, "layouts": ["walk", "alternating"]}
    blocks += [("large", n, layout) for n in sizes for layout in ("walk", "alternating")]
    ctx.run_blocks(_block, blocks)
