"""C10 - a damaged or partial cache never breaks or taints the next scan.

E-choice fault enumeration on the real write path: Path.mkdir / Path.write_text are wrapped so
that the explorer decides, per call, 'complete' or 'crash after k bytes reached the disk' for
every k; then a normal scan must recover. Plus structural faults on a valid cache document
(every key deleted at every level, every value replaced by every other JSON kind, empty /
whitespace / non-JSON files, missing file, missing marker files) and fault -> scan -> fault ->
scan sequences.
"""
from __future__ import annotations

import copy
import itertools
import json
import os
import pathlib
import shutil
from pathlib import Path

from mc import core, harness

ID = "C10"
LEVEL = "fault_enumeration"
TECHNIQUE = "exhaustive crash-point enumeration (every byte offset of every write of the cache update) + exhaustive structural fault enumeration on the cache document, each followed by a real recovery scan"
LEVEL_TEXT = ("Every crash point of the cache update (before/after mkdir, after k bytes of each of the three files for every k) from three "
              "starting states over several trees, and every structural fault of a valid cache document (each key deleted, each value replaced "
              "by each other JSON kind, empty/whitespace/non-JSON, missing file or marker files) and pairs of faults interleaved with scans are "
              "materialised on disk; the next real scan must complete, produce exactly the fresh-scan report and leave a complete valid cache.")
LEVEL_NOTE = ("Crash model: the scan runs in a forked child; every file-system mutation below the tree (open for writing, mkdir, replace/rename, unlink) is an "
              "operation; at the planned operation only the first k bytes reach the disk (or the call happens / does not happen) and the process dies with "
              "os._exit - no exception handler, finally block or atexit hook runs. No reordering between operations (one sequential process). 'Wrong value type' = a different JSON kind. Deleting array elements or editing "
              "same-kind values under a valid checksum is outside the property (undetectable by the stated reuse rule)."
              " Every other recovery scan goes through `scan --verbose` via the command-line entry; faults include inserted repository sections.")

TAG = "Signature: 8a477f597d28d172789f06886806bc55"
GITIGNORE = "# Created by codelimit automatically.\n*\n"


class Crash(BaseException):
    pass


def trees():
    many = {f"pkg/m{i}.py": harness.py_function(f"fn{i}", 3 + i) + "\n" + harness.py_function(f"gn{i}", 2) for i in range(10)}
    return {
        "empty": {"README.txt": "nothing to analyse\n"},
        "one": {"a.py": harness.py_function("alpha", 4)},
        # non-ASCII names end up in the cache document as multi-byte characters: a write can be cut INSIDE one
        "unicode": {"gr\u00f6\u00dfe.py": harness.py_function("gr\u00f6\u00dfe_\u65e5\u672c", 4)},
        "three": {"a.py": harness.py_function("alpha", 4), "d/b.py": harness.py_function("beta", 31), "d/c.js": harness.js_function("gamma", 5)},
        "many": many,
    }


def normalise(doc):
    d = copy.deepcopy(doc)
    d.pop("uuid", None)
    d.pop("timestamp", None)
    return d


def fresh_report(root: Path):
    """from-scratch analysis of the tree (the cache directory is hidden, hence never analysed)"""
    from codelimit.common.Configuration import Configuration
    from codelimit.common.report.Report import Report
    from codelimit.common.report.ReportWriter import ReportWriter
    from codelimit.common.Scanner import scan_path

    harness.reset_globals()
    cb = scan_path(root)
    cb.aggregate()
    return normalise(json.loads(ReportWriter(Report(cb, Configuration.repository)).to_json()))


def run_scan(root: Path, verbose=False):
    from codelimit.commands.scan import scan_command

    with harness.cwd(root):
        if verbose:
            # `codelimit scan --verbose` as the command line runs it: options, configuration file, logging at INFO, repository detection
            import codelimit.__main__ as cli

            return harness.run_cli_function(cli.scan, path=Path("."), exclude=None, verbose=True)
        return harness.run_cli_function(scan_command, Path("."))


class _Proxy:
    """file opened for writing below the tree: collects what is written; at close either everything reaches the disk or - at the
    planned crash point - only the first k bytes, after which the process dies without running any handler"""

    def __init__(self, inj, path, mode, kw):
        self.inj, self.path, self.mode, self.kw = inj, path, mode, kw
        self.parts = []
        self.closed = False
        if "x" in mode and os.path.exists(path):
            raise FileExistsError(17, "File exists", path)
        self.idx = inj.register("write", path)

    def write(self, data):
        self.parts.append(data)
        return len(data)

    def writelines(self, lines):
        for l in lines:
            self.write(l)

    def flush(self):
        pass

    def __enter__(self):
        return self

    def __exit__(self, *exc):
        self.close()
        return False

    def close(self):
        if self.closed:
            return
        self.closed = True
        raw = b"".join(p if isinstance(p, bytes) else p.encode(self.kw.get("encoding") or "utf-8") for p in self.parts)
        self.inj.sizes[self.idx] = len(raw)
        real_mode = "ab" if "a" in self.mode else "wb"
        k = self.inj.crash_at(self.idx)
        with self.inj.real_open(self.path, real_mode) as f:
            f.write(raw if k is None else raw[:k])
            f.flush()
            os.fsync(f.fileno())
        if k is not None:
            os._exit(77)


class Injector:
    """installed in a forked child: every file-system mutation below the tree is an operation; plan = (operation index, k)"""

    def __init__(self, root, plan):
        self.root = os.path.realpath(str(root))
        self.plan = plan
        self.ops = []
        self.sizes = {}

    def inside(self, path):
        try:
            return os.path.realpath(os.fspath(path)).startswith(self.root)
        except TypeError:
            return False

    def register(self, kind, path):
        self.ops.append([kind, os.path.realpath(os.fspath(path))[len(self.root):]])
        return len(self.ops) - 1

    def crash_at(self, idx):
        return self.plan[1] if self.plan and self.plan[0] == idx else None

    def install(self):
        import builtins
        import io

        self.real_open = builtins.open
        inj = self

        def fake_open(file, mode="r", *a, **kw):
            if not isinstance(file, int) and inj.inside(file) and any(c in mode for c in "wxa+"):
                names = ("buffering", "encoding", "errors", "newline")
                kw2 = dict(kw)
                for n, v in zip(names, a):
                    kw2[n] = v
                return _Proxy(inj, os.fspath(file), mode, kw2)
            return inj.real_open(file, mode, *a, **kw)

        builtins.open = fake_open
        io.open = fake_open

        def wrap2(mod, name, kind):
            real = getattr(mod, name)

            def f(*a, **kw):
                target = a[-1] if kind in ("replace", "rename") else a[0]
                if not inj.inside(target):
                    return real(*a, **kw)
                idx = inj.register(kind, target)
                k = inj.crash_at(idx)
                if k == 0:
                    os._exit(77)
                try:
                    r = real(*a, **kw)
                except BaseException:
                    # the system call itself failed (mkdir of an existing directory under exist_ok=True ...): the process can
                    # die right after a failed call just as well
                    if k is not None:
                        os._exit(77)
                    raise
                if k is not None:
                    os._exit(77)
                return r

            setattr(mod, name, f)

        for name, kind in (("mkdir", "mkdir"), ("replace", "replace"), ("rename", "rename"), ("unlink", "unlink"), ("remove", "unlink"), ("rmdir", "rmdir")):
            wrap2(os, name, kind)


def scan_in_child(root: Path, plan, ops_file=None):
    """fork; the child runs the real scan_command with the injector installed. returns the child's exit status (77 = died at the plan)"""
    pid = os.fork()
    if pid == 0:
        try:
            inj = Injector(root, plan)
            inj.install()
            from codelimit.commands.scan import scan_command

            harness.reset_globals()
            os.chdir(root)
            with harness.captured():
                try:
                    scan_command(Path("."))
                    status = 0
                except BaseException:  # noqa
                    status = 3
            if ops_file:
                with inj.real_open(ops_file, "w") as f:
                    json.dump([op + [inj.sizes.get(i, 1)] for i, op in enumerate(inj.ops)], f)
        finally:
            os._exit(locals().get("status", 4))
    _, st = os.waitpid(pid, 0)
    return os.waitstatus_to_exitcode(st)


def prepare(root: Path, tree_id: str, start: str):
    harness.write_files(root, trees()[tree_id])
    if start in ("valid", "stale"):
        code, out, exc = run_scan(root)
        if exc is not None:
            raise core.HarnessError(f"setup scan failed: {exc!r}")
    if start == "stale":
        first = sorted(trees()[tree_id])[0]
        if first.endswith(".py"):
            (root / first).write_text(harness.py_function("edited", 6))
        (root / "new.py").write_text(harness.py_function("added", 3))


def check_recovery(root: Path, sig, what):
    """a normal scan must complete, equal the fresh scan, and leave a complete valid cache"""
    from codelimit.common.report.ReportReader import ReportReader
    from codelimit.common.report.ReportWriter import ReportWriter

    out = []
    verbose = core.digest(what) % 2 == 1  # every other recovery runs through the verbose command-line entry
    code, text, exc = run_scan(root, verbose)
    harness.reset_globals()
    if exc is not None or code not in (None, 0):
        out.append(("scan-fails-after-fault", dict(sig, error=type(exc).__name__ if exc else f"exit-{code}", **({"verbose": True} if verbose else {})), f"{what}: {exc!r}"))
        return out
    cache = root / ".codelimit_cache"
    rp = cache / "codelimit.json"
    try:
        raw = rp.read_text()
        doc = json.loads(raw)
    except Exception as e:  # noqa
        out.append(("cache-invalid-after-recovery", sig, f"{what}: {e!r}"))
        return out
    want = fresh_report(root)
    if normalise(doc) != want:
        diff = [k for k in want["codebase"]["files"] if want["codebase"]["files"][k] != doc.get("codebase", {}).get("files", {}).get(k)]
        out.append(("report-differs-from-fresh-scan", sig, f"{what}: files differing {diff[:3]}; totals {doc.get('codebase', {}).get('totals')} vs {want['codebase']['totals']}"))
    try:
        back = ReportReader.from_json(raw)
        again = json.loads(ReportWriter(back).to_json())
        if normalise(again) != normalise(doc):
            out.append(("cache-does-not-round-trip", sig, what))
    except Exception as e:  # noqa
        out.append(("cache-does-not-round-trip", dict(sig, error=type(e).__name__), f"{what}: {e!r}"))
    for name, content in (("CACHEDIR.TAG", TAG), (".gitignore", GITIGNORE)):
        p = cache / name
        if not p.is_file() or p.read_text() != content:
            out.append(("marker-file-missing-or-damaged", dict(sig, marker=name), f"{what}: {name} {'missing' if not p.exists() else 'has ' + repr(p.read_text()[:40])}"))
    return out


# ---------------------------------------------------------------------------------------
# crash points
# ---------------------------------------------------------------------------------------

def discover_calls(tree_id, start):
    import tempfile

    with harness.temp_tree() as root, tempfile.TemporaryDirectory() as side:
        prepare(root, tree_id, start)
        ops_file = os.path.join(side, "ops.json")
        st = scan_in_child(root, None, ops_file)
        if st != 0 or not os.path.exists(ops_file):
            raise core.HarnessError(f"fault-free scan in a child failed (status {st})")
        return [tuple(x) for x in json.load(open(ops_file))]


def eval_crash(tree_id, start, idx, k):
    with harness.temp_tree() as root:
        prepare(root, tree_id, start)
        st = scan_in_child(root, (idx, k))
        if st != 77:
            raise core.HarnessError(f"planned crash ({idx},{k}) was never reached (child status {st})")
        calls = discover_calls_cached(tree_id, start)
        call = calls[idx]
        sig = {"fault": "crash", "during": call[0] + ":" + os.path.basename(call[1])}
        return check_recovery(root, sig, f"process died in operation #{idx} {call[:2]} after {k} of {call[2]} bytes/steps, start={start}")


_CALLS = {}


def discover_calls_cached(tree_id, start):
    if (tree_id, start) not in _CALLS:
        _CALLS[(tree_id, start)] = discover_calls(tree_id, start)
    return _CALLS[(tree_id, start)]


# ---------------------------------------------------------------------------------------
# structural faults
# ---------------------------------------------------------------------------------------

REPLACEMENTS = [None, 0, "", [], {}, True]


def json_kind(v):
    if v is None:
        return "null"
    if isinstance(v, bool):
        return "bool"
    if isinstance(v, (int, float)):
        return "number"
    if isinstance(v, str):
        return "string"
    if isinstance(v, list):
        return "array"
    return "object"


def paths_of(doc, prefix=()):
    """all paths to values (dict keys and list indices)"""
    if isinstance(doc, dict):
        for k, v in doc.items():
            yield prefix + (k,)
            yield from paths_of(v, prefix + (k,))
    elif isinstance(doc, list):
        for i, v in enumerate(doc):
            yield prefix + (i,)
            yield from paths_of(v, prefix + (i,))


def get_at(doc, path):
    for p in path:
        doc = doc[p]
    return doc


def structural_faults(doc):
    """-> list of fault descriptors"""
    out = [{"f": "file", "content": ""}, {"f": "file", "content": "  \n"}, {"f": "file", "content": "not json {"},
           {"f": "file", "content": "[]"}, {"f": "file", "content": "null"}, {"f": "file", "content": "{}"}, {"f": "file", "content": "\"x\""},
           # nesting deeper than any recursion limit (an unbalanced run, a balanced one, a run inside a half-written document)
           {"f": "file", "content": "[" * 150000}, {"f": "file", "content": "[" * 60000 + "]" * 60000},
           {"f": "file", "content": "{\"version\": \"x\", \"codebase\": " + "{\"files\": " * 50000},
           # a file longer than any report the scan will write (garbage, and a complete document with a tail)
           {"f": "file", "content": "x" * 400000},
           {"f": "nofile"}, {"f": "nomarker", "name": "CACHEDIR.TAG"}, {"f": "nomarker", "name": ".gitignore"}, {"f": "nomarkers"}]
    # an optional section of the document format that a scan of a plain folder never writes: a repository with plausible and with
    # damaged values (the section must not leak into the new report: the fresh scan of this folder has none)
    for rep in ({"owner": "o", "name": "n", "branch": "b"}, {"owner": 7, "name": None, "branch": ["x"]}, {"owner": "\ud83d", "name": "n", "branch": "b"},
                {"owner": "o", "name": "n", "branch": "b", "tag": "t"}):
        out.append({"f": "retype", "path": ["repository"], "to": rep})
    for path in paths_of(doc):
        parent = get_at(doc, path[:-1])
        if isinstance(parent, dict):
            out.append({"f": "delkey", "path": list(path)})
        v = get_at(doc, path)
        for r in REPLACEMENTS:
            if json_kind(r) != json_kind(v):
                out.append({"f": "retype", "path": list(path), "to": r})
    return out


def apply_fault(root: Path, fault):
    cache = root / ".codelimit_cache"
    rp = cache / "codelimit.json"
    f = fault["f"]
    if f == "file":
        cache.mkdir(exist_ok=True)
        rp.write_text(fault["content"])
    elif f == "nofile":
        rp.unlink(missing_ok=True)
    elif f == "nomarker":
        (cache / fault["name"]).unlink(missing_ok=True)
    elif f == "nomarkers":
        (cache / "CACHEDIR.TAG").unlink(missing_ok=True)
        (cache / ".gitignore").unlink(missing_ok=True)
    else:
        try:
            doc = json.loads(rp.read_text())
        except (ValueError, OSError):
            return False
        path = fault["path"]
        try:
            parent = get_at(doc, path[:-1])
        except (KeyError, IndexError, TypeError):
            return False
        if f == "delkey":
            if not isinstance(parent, dict) or path[-1] not in parent:
                return False
            del parent[path[-1]]
        else:
            try:
                parent[path[-1]] = fault["to"]
            except (KeyError, IndexError, TypeError):
                return False
        rp.write_text(json.dumps(doc, indent=2))
    return True


def fault_class(fault):
    f = fault["f"]
    if f in ("delkey", "retype"):
        generic = [p if isinstance(p, str) and not ("." in p or "/" in p) else "*" for p in fault["path"]]
        generic = ["*" if isinstance(p, int) else p for p in generic]
        return f + ":" + "/".join(generic) + (":" + json_kind(fault["to"]) if f == "retype" else "")
    return f + (":" + fault.get("name", "") if f == "nomarker" else "")


def eval_structural(tree_id, faults):
    """faults applied one after the other, a scan after each"""
    out = []
    with harness.temp_tree() as root:
        prepare(root, tree_id, "valid")
        for i, fault in enumerate(faults):
            if not apply_fault(root, fault):
                if i == 0:
                    return None
                break
            sig = {"fault": fault_class(fault), "step": i}
            out += check_recovery(root, sig, f"fault {fault} (step {i + 1} of {len(faults)})")
    return out


def _block(block, agg):
    kind = block[0]
    if kind == "crash":
        _, tree_id, start, idx, ks = block
        for k in ks:
            case = {"part": "crash", "tree": tree_id, "start": start, "call": idx, "k": k}
            viol = eval_crash(tree_id, start, idx, k)
            agg.case(case, True, "ok" if not viol else viol[0][0], sample=k in (0, 17))
            agg.transitions += 2
            for kd, sig, d in viol:
                agg.violation(kd, sig, case, d)
    else:
        _, tree_id, seqs = block
        for faults in seqs:
            case = {"part": "structural", "tree": tree_id, "faults": faults}
            viol = eval_structural(tree_id, faults)
            if viol is None:
                agg.extra["fault_not_applicable"] += 1
                continue
            agg.case(case, True, "ok" if not viol else viol[0][0], sample=len(faults) == 2)
            agg.transitions += 1 + len(faults)
            for kd, sig, d in viol:
                agg.violation(kd, sig, case, d)


def replay(case):
    if case["part"] == "crash":
        viol = eval_crash(case["tree"], case["start"], case["call"], case["k"])
    else:
        viol = eval_structural(case["tree"], case["faults"]) or []
    return [{"kind": k, "sig": s, "detail": d} for k, s, d in viol]


REPRESENTATIVE = [
    {"f": "file", "content": ""}, {"f": "file", "content": "not json {"}, {"f": "file", "content": "{}"}, {"f": "nofile"},
    {"f": "nomarker", "name": "CACHEDIR.TAG"}, {"f": "nomarkers"}, {"f": "delkey", "path": ["version"]}, {"f": "delkey", "path": ["codebase", "files"]},
    {"f": "retype", "path": ["codebase"], "to": []}, {"f": "retype", "path": ["version"], "to": None}, {"f": "delkey", "path": ["root"]},
    {"f": "retype", "path": ["codebase", "files"], "to": ""},
]


def run(ctx: core.Ctx):
    crash_trees = ctx.pick(["one", "unicode"], ["empty", "one", "unicode", "three", "many"])
    starts = ctx.pick(["none", "valid"], ["none", "valid", "stale"])
    struct_trees = ctx.pick(["one"], ["one", "three"])
    ctx.bounds = {"crash_trees": crash_trees, "starting_states": starts, "structural_trees": struct_trees,
                  "replacements": ["null", 0, "", [], {}, True], "fault_pairs": f"{len(REPRESENTATIVE)}^2 on tree 'three'" if not ctx.quick else "12x12 on tree 'one'"}
    ctx.rule = ("crash case = (tree, starting state, write call, k): every write call of the cache update x every k in 0..len (mkdir: before/after); "
                "structural case = (tree, fault sequence): every single fault of the enumerated classes on a valid cache, plus all ordered pairs of 12 "
                "representative faults with a scan after each. Every case runs the real scan_command as recovery (transitions = scans). All cases non-trivial.")
    blocks = []
    crash_points = 0
    for t in crash_trees:
        for st in starts:
            calls = discover_calls(t, st)
            ctx.bounds.setdefault("write_calls", {})[f"{t}/{st}"] = [[c[0], c[1], c[2]] for c in calls]
            _CALLS[(t, st)] = calls
            for idx, (op, path, n) in enumerate(calls):
                ks = list(range(0, n + 1)) if op == "write" else [0, 1]
                crash_points += len(ks)
                step = max(1, len(ks) // (ctx.workers * 2) + 1)
                for i in range(0, len(ks), step):
                    blocks.append(("crash", t, st, idx, ks[i:i + step]))
    ctx.bounds["crash_points"] = crash_points
    for t in struct_trees:
        with harness.temp_tree() as root:
            prepare(root, t, "valid")
            doc = json.loads((root / ".codelimit_cache" / "codelimit.json").read_text())
        singles = [[f] for f in structural_faults(doc)]
        step = max(1, len(singles) // (ctx.workers * 3) + 1)
        for i in range(0, len(singles), step):
            blocks.append(("struct", t, singles[i:i + step]))
    pair_tree = "one" if ctx.quick else "three"
    pairs = [[a, b] for a in REPRESENTATIVE for b in REPRESENTATIVE]
    step = max(1, len(pairs) // (ctx.workers) + 1)
    for i in range(0, len(pairs), step):
        blocks.append(("struct", pair_tree, pairs[i:i + step]))
    ctx.run_blocks(_block, blocks)
