"""C14 - find_all returns sound, ordered, disjoint, longest and complete matches.

(a) every non-nullable pattern tree up to a size bound x every sequence up to a length bound
    through the public find_all, against R-find (derivative semantics);
(b) header shapes built from the real predicate classes (Name, Keyword, Balanced, ...) and the
    header expressions actually shipped by every language (captured by wrapping
    scope_utils.find_all), x every token sequence up to a length bound over the token classes
    the predicates can distinguish; oracle = hand-written recogniser for the
    `prefix Name Balanced+` shapes, and for every captured expression the differential
    "concurrent attempts vs. one isolated attempt per start position" plus parenthesis counting.
"""
from __future__ import annotations

import itertools

from mc import core
from mc.real import top_expr
from mc.refs import regex as R

ID = "C14"
LEVEL = "model_checking"
TECHNIQUE = "bounded-exhaustive enumeration of (pattern, sequence) pairs through find_all against a derivative-based greedy-match reference; header shapes x all token sequences"
LEVEL_TEXT = ("Every non-nullable pattern up to the size bound x every sequence up to the length bound, and every built-in header "
              "shape x every token sequence up to the length bound, is run through the real find_all and every clause of the "
              "property (bounds, spanned items, word of the language, longest, order, disjointness incl. end of input, coverage, "
              "nesting zero at early end) is checked on every result. Exhaustive within bounds.")
LEVEL_NOTE = ("Trusted: derivative reference (mc/refs/regex.py) and the 20-line recogniser for `prefix Name Balanced+`. The 'covered' "
              "clause is read literally; its one structural failure class (an enclosing attempt dropped because an inner attempt "
              "completed first) is listed as known finding K1.")


# ---------------------------------------------------------------------------------------
# (a) plain regular patterns
# ---------------------------------------------------------------------------------------

def check_matches(matches, seq, greedy, is_word, longest_end, balanced_required=False):
    """Generic clause checker. greedy(s) -> (end, success); is_word(s,e) -> bool;
    longest_end(s) -> end of the longest word from s or None.
    returns list of (kind, sig, detail)"""
    out = []
    n = len(seq)
    spans = []
    for m in matches:
        s, e = m.start, m.end
        spans.append((s, e))
        if not (0 <= s < e <= n):
            out.append(("match-out-of-bounds", {"clause": "bounds"}, f"match ({s},{e}) on length {n}"))
            continue
        if list(m.tokens) != list(seq[s:e]):
            out.append(("match-items-wrong", {"clause": "items"}, f"match ({s},{e}) tokens={m.tokens!r} expected {seq[s:e]!r}"))
        if not is_word(s, e):
            out.append(("match-not-a-word", {"clause": "word"}, f"match ({s},{e}) is not a word of the language"))
        le = longest_end(s)
        if le is not None and le != e:
            out.append(("match-not-longest", {"clause": "longest"}, f"match ({s},{e}) but the longest word from {s} ends at {le}"))
    for (s1, e1), (s2, e2) in zip(spans, spans[1:]):
        if not (e1 <= s2):
            at_end = e2 == n or e1 == n
            rel = "out-of-order" if s2 < s1 else "overlap"
            out.append(("matches-overlap-or-out-of-order", {"clause": "order", "relation": rel, "at_end_of_input": at_end},
                        f"consecutive matches ({s1},{e1}) then ({s2},{e2})"))
    valid = [(s, e) for s, e in spans if 0 <= s < e <= n]
    for s in range(n):
        e, ok = greedy(s)
        if not ok:
            continue
        if any(ms <= s < me for ms, me in valid):
            continue
        encl = any(s < ms and me <= e for ms, me in valid)
        out.append(("position-not-covered",
                    {"clause": "covered", "relation": "greedy-match-encloses-a-reported-match" if encl else "no-reported-match-inside"},
                    f"greedy match ({s},{e}) succeeds but position {s} is in no reported match {valid}"))
    return out


def eval_plain(tree, seq):
    from codelimit.common.gsm.matcher import find_all

    ref = R.compile_tree(tree)
    s = list(seq)
    try:
        with core.time_limit(20):
            matches = find_all(top_expr(tree), s)
    except core.Timeout:
        return None, [("find-all-hangs", {"clause": "terminates"}, "")]
    except Exception as e:  # noqa
        return None, [("find-all-raises", {"clause": "total", "error": type(e).__name__}, repr(e))]

    def greedy(p):
        e = R.greedy_end(ref, s, p)
        return e, (e > p and R.member(ref, s[p:e]))

    out = check_matches(matches, s, greedy, lambda a, b: R.member(ref, s[a:b]), lambda a: R.longest_word_end(ref, s, a))
    return [(m.start, m.end) for m in matches], out


def alt_subgrammar(p_max, q_max, atoms="ab"):
    """alternations alt(P, Q) / alt(Q, P) with |P| <= p_max and |Q| <= q_max: larger patterns (up to p_max+q_max+1 nodes) in which one
    branch can complete inside a run of the other - the shape that makes nested / adjacent candidates"""
    ps = [t for sz in range(1, p_max + 1) for t in R.trees(sz, atoms)]
    qs = [t for sz in range(1, q_max + 1) for t in R.trees(sz, atoms)]
    out = []
    for p in ps:
        if R.nullable(R.compile_tree(p)):
            continue
        for q in qs:
            if R.nullable(R.compile_tree(q)) or p == q:
                continue
            out.append(("alt", p, q))
            out.append(("alt", q, p))
    return out


def _block_alt(block, agg):
    _, p_max, q_max, lo, hi, alpha, slen = block
    seqs = R.sequences(alpha, slen)
    for tree in alt_subgrammar(p_max, q_max)[lo:hi]:
        tj = R.to_json(tree)
        for seq in seqs:
            spans, viol = eval_plain(tree, seq)
            case = {"part": "a", "pattern": tj, "seq": seq}
            agg.case(case, bool(spans), None if spans is None else len(spans), sample=False)
            agg.transitions += len(seq)
            for kind, sig, detail in viol:
                agg.violation(kind, dict(sig, part="a"), dict(case, context=["alt", list(block)]), f"{R.show(tree)} on {seq!r}: {detail}")


LONG_LENGTHS = [200, 1023, 1024, 1025, 1100]  # find_all is quadratic on a run: 3000 only in the thorough tier


def eval_long(kind, n):
    """one long match (a run far beyond any enumerated length): it must be reported whole"""
    from codelimit.common.gsm.matcher import find_all

    out = []
    if kind == "plus-a":
        seq = ["b"] + ["a"] * n + ["b"]
        got = [(m.start, m.end) for m in find_all(top_expr(("plus", ("a",))), seq)]
        want = [(1, n + 1)]
    elif kind == "a-star-b-c":
        seq = ["a"] + ["b"] * n + ["c", "a", "c"]
        got = [(m.start, m.end) for m in find_all(top_expr(("cat", ("a",), ("cat", ("star", ("b",)), ("c",)))), seq)]
        want = [(0, n + 2), (n + 2, n + 4)]
    else:
        mk, prefix = hand_shapes()["name-groups"]
        codes = ["op:+", "id", "p:("] + ["id", "op:+"] * (n // 2) + ["p:)", "p:{", "id", "p:(", "p:)"]
        toks = [mk_token(c, i) for i, c in enumerate(codes)]
        got = [(m.start, m.end) for m in find_all(mk(), toks)]
        end = 3 + 2 * (n // 2) + 1
        want = [(1, end), (end + 1, end + 4)]
    if got != want:
        out.append(("long-match-lost-or-cut", {"clause": "longest/covered", "shape": kind}, f"{kind} with a run of {n}: reported {got[:4]}, expected {want}"))
    return out


def run_pair(a_json, b_json, alpha, slen):
    """use pattern A through find_all / starts_with, then check pattern B completely (same process)"""
    from codelimit.common.gsm import matcher

    a = R.from_json(a_json)
    for seq in ("ab", "ba", "aab"):
        try:
            matcher.find_all(top_expr(a), list(seq))
            matcher.starts_with(top_expr(a), list(seq))
        except Exception:
            pass
    b = R.from_json(b_json)
    out = []
    for seq in R.sequences(alpha, slen):
        spans, viol = eval_plain(b, seq)
        for kind, sig, detail in viol:
            out.append([kind, sig, seq, detail])
    return out


def pair_trees(max_size):
    return [t for sz in range(1, max_size + 1) for t in R.trees(sz, "ab") if not R.nullable(R.compile_tree(t))]


def _block_pairs(block, agg):
    from mc.checks.c06 import isolated

    _, max_size, lo, hi, alpha, slen = block
    trees = pair_trees(max_size)
    for a in trees[lo:hi]:
        aj = R.to_json(a)
        for b in trees:
            if a == b:
                continue
            bj = R.to_json(b)
            res = isolated(run_pair, aj, bj, alpha, slen)
            agg.case({"part": "pair", "history": [aj], "pattern": bj}, True, "ok" if not res else res[0][0], sample=False)
            agg.transitions += 1
            for kind, sig, seq, detail in res:
                if kind == "position-not-covered" and sig.get("relation") == "greedy-match-encloses-a-reported-match":
                    continue  # K1 is reported by the main enumeration
                agg.violation("result-depends-on-previously-used-pattern", {"underlying": kind},
                              {"part": "pair", "history": [aj], "pattern": bj, "seq": seq, "alphabet": alpha, "slen": slen},
                              f"after searching with {R.show(a)}: {R.show(b)} on {seq!r}: {detail}")


def _block_plain(block, agg):
    atoms, size, lo, hi, alpha, slen = block
    seqs = R.sequences(alpha, slen)
    for tree in R.trees(size, atoms)[lo:hi]:
        ref = R.compile_tree(tree)
        if R.nullable(ref):
            agg.extra["nullable_patterns_skipped"] += 1
            continue
        tj = R.to_json(tree)
        for seq in seqs:
            spans, viol = eval_plain(tree, seq)
            case = {"part": "a", "pattern": tj, "seq": seq}
            agg.case(case, bool(spans), None if spans is None else len(spans), sample=bool(spans) and len(spans) >= 2)
            agg.transitions += len(seq)
            for kind, sig, detail in viol:
                agg.violation(kind, dict(sig, part="a"), dict(case, context=["plain", list(block)]), f"{R.show(tree)} on {seq!r}: {detail}")


# ---------------------------------------------------------------------------------------
# (b) header shapes over real tokens
# ---------------------------------------------------------------------------------------

def mk_token(code: str, pos: int):
    from pygments.token import Keyword as K, Name as N, Operator as O, Punctuation as P, Literal

    from codelimit.common.Location import Location
    from codelimit.common.Token import Token

    loc = Location(1, pos + 1)
    if code == "id":
        return Token(loc, N, "x")
    if code.startswith("kw:"):
        return Token(loc, K, code[3:])
    if code.startswith("op:"):
        return Token(loc, O, code[3:])
    if code.startswith("p:"):
        return Token(loc, P, code[2:])
    if code == "lit":
        return Token(loc, Literal.Number, "1")
    raise ValueError(code)


def hand_shapes():
    from codelimit.common.gsm.operator.OneOrMore import OneOrMore
    from codelimit.common.gsm.operator.Optional import Optional
    from codelimit.common.token_matching.predicate.Balanced import Balanced
    from codelimit.common.token_matching.predicate.Keyword import Keyword
    from codelimit.common.token_matching.predicate.Name import Name
    from codelimit.common.token_matching.predicate.And import And
    from codelimit.common.token_matching.predicate.Not import Not
    from codelimit.common.token_matching.predicate.Or import Or

    return {
        "groups-only": (lambda: [OneOrMore(Balanced("(", ")"))], None),
        "name-groups": (lambda: [Name(), OneOrMore(Balanced("(", ")"))], []),
        # the stateful predicate inside a combinator (same language over this alphabet: the other operand never decides)
        "name-groups-in-and": (lambda: [Name(), OneOrMore(And(Balanced("(", ")"), Not("\u00a7never")))], []),
        "name-groups-in-or": (lambda: [Name(), OneOrMore(Or(Balanced("(", ")"), "\u00a7never"))], []),
        "def-name-groups": (lambda: [Keyword("def"), Name(), OneOrMore(Balanced("(", ")"))], [("req", "kw:def")]),
        "function?-name-groups": (lambda: [Optional(Keyword("function")), Name(), OneOrMore(Balanced("(", ")"))], [("opt", "kw:function")]),
    }


HAND_ALPHABET = {
    "groups-only": ["id", "p:(", "p:)", "op:+"],
    "name-groups": ["id", "p:(", "p:)", "p:{", "kw:if", "op:+"],
    "name-groups-in-and": ["id", "p:(", "p:)", "p:{", "op:+"],
    "name-groups-in-or": ["id", "p:(", "p:)", "p:{", "op:+"],
    "def-name-groups": ["id", "p:(", "p:)", "kw:def", "kw:if", "op:+"],
    "function?-name-groups": ["id", "p:(", "p:)", "p:{", "kw:function", "op:+"],
}


def ref_header_greedy(prefix, codes, s):
    """hand-written recogniser: prefix items, a name, then >=1 parenthesis groups; inside a
    group everything is accepted. returns (greedy end, success, longest-word end)"""
    i = s
    n = len(codes)
    if prefix is None:  # no name at all: the match is one or more groups
        depth = 0
        seen_group = False
        while i < n:
            c = codes[i]
            if c == "p:(":
                depth += 1
                seen_group = True
            elif c == "p:)":
                if depth == 0:
                    break
                depth -= 1
            elif depth == 0:
                break
            i += 1
        return i, seen_group, (i if seen_group else None)
    for mode, code in prefix:
        if i < n and codes[i] == code:
            i += 1
        elif mode == "req":
            return i, False, None
    if i >= n or codes[i] != "id":
        return i, False, None
    i += 1
    depth = 0
    seen_group = False
    while i < n:
        c = codes[i]
        if c == "p:(":
            depth += 1
            seen_group = True
        elif c == "p:)":
            if depth == 0:
                break
            depth -= 1
        elif depth == 0:
            break
        i += 1
    return i, seen_group, (i if seen_group else None)


def eval_hand(shape, codes):
    from codelimit.common.gsm.matcher import find_all

    mk, prefix = hand_shapes()[shape]
    toks = [mk_token(c, i) for i, c in enumerate(codes)]
    try:
        matches = find_all(mk(), toks)
    except Exception as e:  # noqa
        return None, [("find-all-raises", {"clause": "total", "error": type(e).__name__}, repr(e))]

    def greedy(p):
        e, ok, _ = ref_header_greedy(prefix, codes, p)
        return e, ok

    def is_word(a, b):
        e, ok, _ = ref_header_greedy(prefix, codes[:b], a)
        return ok and e == b

    out = check_matches(matches, toks, greedy, is_word, lambda a: ref_header_greedy(prefix, codes, a)[2])
    out += paren_clause(matches, codes)
    return [(m.start, m.end) for m in matches], out


def paren_clause(matches, codes):
    out = []
    for m in matches:
        if 0 <= m.start < m.end < len(codes):
            span = codes[m.start:m.end]
            if span.count("p:(") != span.count("p:)"):
                out.append(("early-end-with-open-nesting", {"clause": "nesting-zero"},
                            f"match ({m.start},{m.end}) ends before end of input with unbalanced parentheses"))
    return out


_CAP = {}


def capture_language_expressions(fresh=False):
    """the header expressions the working tree really uses, per language (cached per block)"""
    if fresh or "v" not in _CAP:
        _CAP["v"] = _capture()
    return _CAP["v"]


def _capture():
    from codelimit.common.scope import scope_utils
    from codelimit.languages import Languages

    captured = {}
    real_find_all = scope_utils.find_all

    for name, lang in sorted(Languages.by_name.items()):
        exprs = []

        def make(exprs_):
            def rec(expression, tokens, *a, **kw):
                exprs_.append(expression)
                return []
            return rec
        rec = make(exprs)

        scope_utils.find_all = rec
        try:
            lang.extract_headers([mk_token("id", 0), mk_token("p:(", 1), mk_token("p:)", 2), mk_token("p:{", 3)])
        finally:
            scope_utils.find_all = real_find_all
        if not exprs:
            if name not in ("Python", "JavaScript", "TypeScript", "Java", "C", "C++", "C#"):
                continue  # a language registered beyond the property's seven without a header pattern: nothing to run
            raise core.HarnessError(f"seam scope_utils.find_all never hit for language {name}")
        captured[name] = exprs
    return captured


def predicate_values(expr, acc=None):
    """strings the predicates of an expression compare tokens with: (class, value)"""
    acc = set() if acc is None else acc
    seen = set()

    def walk(o):
        if id(o) in seen:
            return
        seen.add(id(o))
        if isinstance(o, (list, tuple)):
            for x in o:
                walk(x)
            return
        if isinstance(o, str):
            acc.add(("value", o))
            return
        cls = type(o).__name__
        d = getattr(o, "__dict__", None)
        if d is None:
            return
        for k, v in d.items():
            if isinstance(v, str):
                acc.add((cls, v))
            else:
                walk(v)

    walk(expr)
    return acc


def alphabet_for(expr):
    codes = ["id", "p:(", "p:)"]
    for cls, v in sorted(predicate_values(expr)):
        if cls == "Keyword":
            codes.append("kw:" + v)
        elif cls == "Operator":
            codes.append("op:" + v)
        elif cls == "Symbol":
            codes.append("p:" + v)
        elif cls in ("TokenValue", "value") and v not in "()":
            codes.append("p:" + v)
    for extra in ("p:{", "kw:if"):
        codes.append(extra)
    out = []
    for c in codes:
        if c not in out:
            out.append(c)
    return out


def eval_captured(lang, idx, codes):
    from codelimit.common.gsm.Expression import expression_to_nfa, nfa_to_dfa
    from codelimit.common.gsm.matcher import find_all
    from codelimit.common.gsm.Pattern import Pattern

    expr = capture_language_expressions()[lang][idx]
    toks = [mk_token(c, i) for i, c in enumerate(codes)]
    try:
        matches = find_all(expr, toks)
    except Exception as e:  # noqa
        return None, [("find-all-raises", {"clause": "total", "error": type(e).__name__}, repr(e))]
    from mc.checks.c15 import build_dfa
    dfa = build_dfa(expr)
    memo = {}

    def isolated(s, upto=None):
        key = (s, upto)
        if key in memo:
            return memo[key]
        p = Pattern(s, dfa)
        e = s
        last_acc = None
        for item in (toks[s:] if upto is None else toks[s:upto]):
            try:
                ok = p.consume(item)
            except ValueError:
                ok = None
            if not ok:
                break
            e += 1
            if p.is_accepting():
                last_acc = e
        memo[key] = (e, e > s and p.is_accepting(), last_acc)
        return memo[key]

    def is_word(a, b):
        e, ok, _ = isolated(a, b)
        return ok and e == b

    out = check_matches(matches, toks, lambda s: isolated(s)[:2], is_word, lambda a: isolated(a)[2])
    out += paren_clause(matches, codes)
    return [(m.start, m.end) for m in matches], out


def _block_shapes(block, agg):
    mode, name, idx, alphabet, n, first = block
    capture_language_expressions(fresh=True)
    for rest in itertools.product(alphabet, repeat=n - 1) if n > 0 else [()]:
        codes = ([first] if n > 0 else []) + list(rest)
        if mode == "hand":
            spans, viol = eval_hand(name, codes)
            case = {"part": "b-hand", "shape": name, "tokens": codes}
        else:
            spans, viol = eval_captured(name, idx, codes)
            case = {"part": "b-lang", "language": name, "expr": idx, "tokens": codes}
        agg.case(case, bool(spans), None if spans is None else len(spans), sample=bool(spans) and len(spans) >= 2)
        agg.transitions += len(codes)
        for kind, sig, detail in viol:
            agg.violation(kind, dict(sig, part=case["part"]), dict(case, context=["shape", list(block)]), f"{name} on {' '.join(codes)}: {detail}")


def replay(case):
    if case["part"] == "long":
        return [{"kind": k, "sig": dict(s, part="long"), "detail": d} for k, s, d in eval_long(case["shape"], case["n"])]
    if case["part"] == "pair":
        from mc.checks.c06 import isolated

        res = isolated(run_pair, case["history"][0], case["pattern"], case.get("alphabet", "ab"), case.get("slen", 3))
        return [{"kind": "result-depends-on-previously-used-pattern", "sig": {"underlying": k}, "detail": d} for k, sig, seq, d in res
                if not (k == "position-not-covered" and sig.get("relation") == "greedy-match-encloses-a-reported-match")][:3]
    from mc.checks.c06 import isolated

    out = isolated(_replay_single, case)
    if out or "context" not in case:
        return out
    # not reproducible alone: re-run the whole block it came from in a fresh child (state left by earlier patterns of the block)
    return isolated(_rerun_block, case["context"])


def _rerun_block(context):
    agg = core.Agg()
    kind, b = context
    _dispatch((kind, tuple(tuple(x) if isinstance(x, list) else x for x in b)), agg)
    return [{"kind": r["kind"], "sig": r["sig"], "detail": "[only after the earlier patterns of its block were used in the same process] " + r["detail"]}
            for lst in agg.violations.values() for _, r in lst]


def _replay_single(case):
    if case["part"] == "a":
        _, viol = eval_plain(R.from_json(case["pattern"]), case["seq"])
    elif case["part"] == "b-hand":
        _, viol = eval_hand(case["shape"], case["tokens"])
    else:
        _, viol = eval_captured(case["language"], case["expr"], case["tokens"])
    return [{"kind": k, "sig": dict(s, part=case["part"]), "detail": d} for k, s, d in viol]


def run(ctx: core.Ctx):
    plans = ctx.pick([("ab", 4, "abc", 5), ("abc", 3, "abc", 5), ("ab", 5, "ab", 4)],
                     [("ab", 5, "abc", 6), ("abc", 4, "abc", 6), ("ab", 6, "ab", 6)])
    n_hand = ctx.pick(6, 7)
    n_lang = ctx.pick(4, 6)
    ctx.bounds = {"plain plans(atoms,max_size,seq_alphabet,max_len)": plans, "hand_shape_max_tokens": n_hand,
                  "language_expr_max_tokens": n_lang}
    ctx.rule = ("cases = (pattern, sequence) through find_all: (a) every non-nullable tree <= max_size x every sequence <= max_len; "
                "(b) 3 hand-built header shapes and every header expression captured from the 7 shipped languages x every token "
                "sequence up to the bound over the token classes the predicates distinguish. Non-trivial: find_all reported >= 1 "
                "match. transitions = items fed to find_all.")
    ctx.assumptions = ["plain patterns use disjoint Identity atoms", "token classes: one representative per predicate-distinguishable class"]
    blocks = []
    done = set()
    for atoms, maxsize, alpha, slen in plans:
        for size in range(1, maxsize + 1):
            key = (atoms, size, alpha, slen)
            if key in done:
                continue
            done.add(key)
            n = len(R.trees(size, atoms))
            step = max(1, min(200, n // (ctx.workers * 4) + 1))
            for lo in range(0, n, step):
                blocks.append(("plain", (atoms, size, lo, min(n, lo + step), alpha, slen)))
    for shape in hand_shapes():
        alpha = HAND_ALPHABET[shape]
        blocks.append(("shape", ("hand", shape, 0, alpha, 0, None)))
        for n in range(1, n_hand + 1):
            for first in alpha:
                blocks.append(("shape", ("hand", shape, 0, alpha, n, first)))
    cap = capture_language_expressions()
    seen_expr = {}
    for lang, exprs in cap.items():
        for idx, expr in enumerate(exprs):
            alpha = alphabet_for(expr)
            ctx.bounds.setdefault("language_alphabets", {})[f"{lang}[{idx}]"] = alpha
            for n in range(1, n_lang + 1):
                for first in alpha:
                    blocks.append(("shape", ("lang", lang, idx, alpha, n, first)))
    p_max, q_max, aslen = ctx.pick((5, 2, 4), (5, 3, 5))
    nalt = len(alt_subgrammar(p_max, q_max))
    ctx.bounds["alt_subgrammar"] = {"max_size_P": p_max, "max_size_Q": q_max, "patterns": nalt, "max_len": aslen, "alphabet": "ab"}
    step = max(1, nalt // (ctx.workers * 4) + 1)
    for lo in range(0, nalt, step):
        blocks.append(("alt", ("alt", p_max, q_max, lo, min(nalt, lo + step), "ab", aslen)))
    for shape in ("plus-a", "a-star-b-c", "header"):
        for n in LONG_LENGTHS + ([] if ctx.quick else [3000]):
            blocks.append(("long", (shape, n)))
    ctx.bounds["long_runs"] = LONG_LENGTHS + ([] if ctx.quick else [3000])
    psize = ctx.pick(4, 4)
    npair = len(pair_trees(psize))
    ctx.bounds["pattern_pairs"] = {"max_size": psize, "trees": npair, "ordered_pairs": npair * (npair - 1)}
    step = max(1, npair // (ctx.workers * 4) + 1)
    for lo in range(0, npair, step):
        blocks.append(("pairs", ("pairs", psize, lo, min(npair, lo + step), "ab", 3)))
    from codelimit.common.gsm import matcher, Expression, Pattern  # noqa (imported, not used, before forking)
    import mc.checks.c06  # noqa
    ctx.run_blocks(_dispatch, blocks, fresh=True)


def _dispatch(block, agg):
    kind, b = block
    if kind == "plain":
        _block_plain(b, agg)
    elif kind == "alt":
        _block_alt(b, agg)
    elif kind == "pairs":
        _block_pairs(b, agg)
    elif kind == "long":
        shape, n = b
        viol = eval_long(shape, n)
        case = {"part": "long", "shape": shape, "n": n}
        agg.case(case, True, "long", sample=False)
        agg.transitions += n
        for k, sig, d in viol:
            agg.violation(k, dict(sig, part="long"), case, d)
    else:
        _block_shapes(b, agg)
