"""C11 - exactly the non-hidden, non-excluded files of supported languages are analysed.

E-prod over (tree, exclusion list, source of the exclusions, spelling of the root). Inclusion is
decided per file from its own path, so one *universal* tree holding every path over the name
pool (7 directory names to depth 2 x 11 file names) covers every per-file decision in one scan;
plus degenerate trees and the pruned-tree differential.
"""
from __future__ import annotations

import fnmatch
import hashlib
import itertools
import json
import os
import subprocess
from pathlib import Path

from mc import core, harness
from mc.gen import canon

ID = "C11"
LEVEL = "exploration"
TECHNIQUE = "exhaustive product (universal tree x exclusion lists x exclusion source x root spelling) through the real scan against a reference selection model"
LEVEL_TEXT = ("A universal tree with every combination of {ordinary, hidden, built-in-excluded} directory names to depth 2 and {7 supported, hidden, "
              "unsupported, extension-less} file names is scanned for every exclusion list of <= 2 patterns out of 10 (five gitignore pattern classes), "
              "supplied via .codelimit.yml, --exclude, the root .gitignore or split over two sources, with the root spelled relative, absolute and "
              "with '..'; the set of reported files (with language and checksum) and the set of analysed files must equal the reference selection.")
LEVEL_NOTE = ("Reference matcher R-ignore implements exactly the five enumerated pattern classes and is cross-checked against `git check-ignore --no-index` "
              "at start-up when git is available (calibration only). Name -> language table is checked against Pygments at start-up.")

DIRS = ["src", "pkg", ".hid", "tests", "build", "node_modules", "venv"]
FILES = ["a.py", "b.js", "c.ts", "d.java", "e.c", "f.cpp", "g.cs", ".h.py", "n.txt", "m.rb", "noext",
         # names whose language does not follow from "the usual extension": secondary extensions and whole-name rules
         "h.h", "i.hpp", "j.cc", "k.mjs", "l.pyi", "BUILD", "SConstruct", "LICENSE", "Makefile",
         # legitimate names with characters that option / config parsing might treat as separators
         "p,q.py", "sp ace.js",
         # the same stem under two languages side by side (a compiled file next to its source)
         "b.ts"]
LANG_OF_EXT = {"py": "Python", "pyi": "Python", "js": "JavaScript", "mjs": "JavaScript", "ts": "TypeScript", "java": "Java", "c": "C", "h": "C",
               "cpp": "C++", "hpp": "C++", "cc": "C++", "cs": "C#"}
LANG_OF_NAME = {"BUILD": "Python", "SConstruct": "Python"}


SEVEN = {"Python", "JavaScript", "TypeScript", "Java", "C", "C++", "C#"}
_extra_cache = {}


def _additional_language(basename):
    """a language the working tree registers BEYOND the seven of the property (a maintainer adding, say, Ruby support):
    such a file then legitimately qualifies; the seven themselves come from the fixed table so that losing one is reported"""
    if basename not in _extra_cache:
        got = None
        try:
            from pygments.lexers import get_lexer_for_filename
            from pygments.util import ClassNotFound

            from codelimit.languages import Languages
            extra = set(Languages.by_name) - SEVEN
            if extra:
                try:
                    name = get_lexer_for_filename(basename).name
                    got = name if name in extra else None
                except ClassNotFound:
                    got = None
        except ImportError:
            got = None
        _extra_cache[basename] = got
    return _extra_cache[basename]


def language_of(basename):
    if basename in LANG_OF_NAME:
        return LANG_OF_NAME[basename]
    ext = basename.rsplit(".", 1)[1] if "." in basename.lstrip(".") else ""
    return LANG_OF_EXT.get(ext) or _additional_language(basename)
BUILTIN = [".bzr", ".direnv", ".eggs", ".git", ".git-rewrite", ".hg", ".ipynb_checkpoints", ".mypy_cache", ".nox", ".pants.d", ".pytest_cache",
           ".pytype", ".ruff_cache", ".svn", ".tox", ".venv", ".vscode", "__pypackages__", "_build", "buck-out", "build", "dist", "node_modules",
           "venv", "test", "tests"]
PATTERNS = ["pkg", "a.py", "src/", "pkg/", "*.js", "*.py", "src/pkg", "src/a.py", "src/*", "pkg/*",
            # root-anchored single component: only the top-level entry of that name
            "/pkg", "/a.py",
            # bare names containing a comma / a blank (one pattern each, not a list)
            "p,q.py", "sp ace.js",
         # the same stem under two languages side by side (a compiled file next to its source)
         "b.ts"]
# ordered lists with a negation (last matching pattern wins); only combinations on which git and per-path matching agree
NEGATION_LISTS = [["*.js", "!b.js"], ["pkg", "!src/pkg"], ["*.py", "!src/*.py"], ["src/*", "!src/a.py"]]


def universal_paths():
    dirs = [""] + [d + "/" for d in DIRS] + [a + "/" + b + "/" for a in DIRS for b in DIRS]
    return [d + f for d in dirs for f in FILES]


def file_content(path):
    base = os.path.basename(path)
    if base in ("crlf.py", "cr.js", "latin.java"):
        # bytes that do not survive a decode / encode round trip: CRLF and lone-CR line ends, a legacy 8-bit encoding
        lang = language_of(base)
        text = canon.render({"lang": lang, "items": [{"k": "func", "name": "fn", "style": "same", "body": [{"k": "simple"}]}]})[0]
        if base == "crlf.py":
            return text.replace("\n", "\r\n").encode()
        if base == "cr.js":
            return text.replace("\n", "\r").encode()
        return ("// caf\u00e9 \u00fc\n" + text).encode("latin-1")
    if os.path.basename(path) == "big.py":
        return harness.py_function("before_blob", 4) + "\nBLOB = \"\"\"\n" + ("0123456789abcdef" * 4 + "\n") * 19000 + "\"\"\"\n\n" + harness.py_function("after_blob", 5)
    lang = language_of(os.path.basename(path))
    if lang not in SEVEN:
        return f"plain text for {path}\n"
    spec = {"lang": lang, "items": [{"k": "func", "name": "fn", "style": "same", "body": [{"k": "simple"}]}]}
    text = canon.render(spec)[0]
    lead = "#" if lang == "Python" else "//"
    return f"{lead} {path}\n" + text


def ref_excluded(path, patterns):
    """R-ignore for the enumerated pattern classes (+ bare names of the built-in list); a leading '!' negates and the
    LAST matching pattern decides"""
    verdict = False
    for pat in patterns:
        neg = pat.startswith("!")
        if _ref_match(path, pat[1:] if neg else pat):
            verdict = not neg
    return verdict


def _ref_match(path, pat):
    comps = path.split("/")
    if pat.startswith("/"):
        p = pat[1:]
        return path == p or path.startswith(p + "/")
    if "/" in pat and "*" in pat and not pat.endswith("/*"):
        # anchored glob such as src/*.py: matches entries directly inside the directory (and everything below a matched directory)
        d, g = pat.rsplit("/", 1)
        dc = d.split("/")
        return comps[:len(dc)] == dc and len(comps) > len(dc) and fnmatch.fnmatchcase(comps[len(dc)], g)
    for pat in [pat]:
        if pat.endswith("/") and "/" not in pat[:-1]:
            if pat[:-1] in comps[:-1]:
                return True
        elif pat.endswith("/*") and "/" not in pat[:-2]:
            if comps[0] == pat[:-2] and len(comps) >= 2:
                return True
        elif "/" in pat:
            if path == pat or path.startswith(pat + "/"):
                return True
        elif "*" in pat:
            if any(fnmatch.fnmatchcase(c, pat) for c in comps):
                return True
        else:
            if pat in comps:
                return True
    return False


def ref_selected(paths, patterns):
    """{path: language} of the files that must contribute"""
    out = {}
    for p in paths:
        comps = p.split("/")
        if any(c.startswith(".") for c in comps):
            continue
        if ref_excluded(p, BUILTIN + list(patterns)):
            continue
        lang = language_of(comps[-1])
        if lang is not None:
            out[p] = lang
    return out


def calibrate():
    """R-ignore vs git check-ignore (when git exists) and name->language vs Pygments"""
    from pygments.lexers import get_lexer_for_filename
    from pygments.util import ClassNotFound

    from codelimit.languages import Languages

    for f in FILES:
        try:
            name = get_lexer_for_filename(f).__class__.name
        except ClassNotFound:
            name = None
        want = language_of(f)
        # calibration is against PYGMENTS only (which lexer a name gets); whether codelimit's own registry still knows each of
        # the seven languages is part of the property and is judged by the scans, not here
        got = name if (name in SEVEN or name in Languages.by_name) else None
        if want != got:
            raise core.HarnessError(f"name->language table disagrees with Pygments for {f}: {want} vs {got}")
    if not any(os.access(os.path.join(d, "git"), os.X_OK) for d in os.environ.get("PATH", "").split(os.pathsep)):
        return "git not available"
    paths = [p for p in universal_paths() if not any(c.startswith(".") for c in p.split("/"))]
    with harness.temp_tree() as root:
        subprocess.run(["git", "init", "-q", str(root)], check=True, capture_output=True)
        n = 0
        for pats in [[p] for p in PATTERNS] + [["pkg", "*.js"], ["src/*", "a.py"]] + NEGATION_LISTS:
            (root / ".gitignore").write_text("\n".join(pats) + "\n")
            r = subprocess.run(["git", "-C", str(root), "check-ignore", "--no-index", "--stdin"], input="\n".join(paths), capture_output=True, text=True)
            ignored = set(r.stdout.split("\n")) - {""}
            mine = {p for p in paths if ref_excluded(p, pats)}
            if ignored != mine:
                raise core.HarnessError(f"R-ignore disagrees with git for {pats}: only-git {sorted(ignored - mine)[:3]} only-ref {sorted(mine - ignored)[:3]}")
            n += 1
    return f"agrees with git check-ignore on {n} pattern lists"


def build(root: Path, paths):
    harness.write_files(root, {p: file_content(p) for p in paths})


def run_scan(base: Path, spelling, patterns, source):
    """returns (files dict {rel: (language, checksum)}, analysed list, exception)"""
    from codelimit.common import Scanner
    from codelimit.common.Configuration import Configuration

    proj = base / "proj"
    cfg, cli, gi = [], [], []
    if source == "config":
        cfg = patterns
    elif source == "option":
        cli = patterns
    elif source == "gitignore":
        gi = patterns
    elif source == "option+config":
        cli, cfg = patterns[:1], patterns[1:]
    elif source == "option+gitignore":
        cli, gi = patterns[:1], patterns[1:]
    else:  # split over config file and .gitignore
        cfg, gi = patterns[:1], patterns[1:]
    for f in (proj / ".codelimit.yml", proj / ".gitignore"):
        if f.exists():
            f.unlink()
    if cfg:
        (proj / ".codelimit.yml").write_text("exclude:\n" + "".join(f'  - "{p}"\n' for p in cfg))
    if gi:
        # (the last line of a .gitignore need not end in a newline)
        (proj / ".gitignore").write_text("\n".join(gi) + ("\n" if len("".join(gi)) % 2 else ""))
    link = base / "link-to-proj"
    if spelling.startswith("symlink") and not link.exists():
        os.symlink(str(proj), str(link))
    cwd, arg = {"relative": (proj, Path(".")), "relative-from-parent": (base, Path("proj")), "absolute": (base, proj),
                "dotdot": (base, Path("proj") / "src" / ".."), "symlink-relative": (base, Path("link-to-proj")), "symlink-absolute": (base, link)}[spelling]
    seen = []
    real = Scanner._analyze_file

    def wrapped(path, rel_path, *a, **kw):
        seen.append(str(rel_path))
        return real(path, rel_path, *a, **kw)

    harness.reset_globals()
    Scanner._analyze_file = wrapped
    try:
        with harness.cwd(cwd), harness.captured():
            if cli:
                from codelimit.__main__ import scan as cli_scan

                try:
                    cli_scan(path=arg, exclude=list(cli), verbose=False)
                except SystemExit:
                    pass
                doc = json.loads((proj / ".codelimit_cache" / "codelimit.json").read_text())
                files = {k: (v["language"], v["checksum"]) for k, v in doc["codebase"]["files"].items()}
                import shutil

                shutil.rmtree(proj / ".codelimit_cache", ignore_errors=True)
            else:
                Configuration.load(arg)
                cb = Scanner.scan_path(arg)
                files = {k: (e.language, e.checksum()) for k, e in cb.files.items()}
        return files, seen, None
    except Exception as e:  # noqa
        return None, seen, e
    finally:
        Scanner._analyze_file = real
        harness.reset_globals()


def compare(paths, patterns, files, seen, exc, sig):
    out = []
    if exc is not None:
        return [("scan-raises", dict(sig, error=type(exc).__name__), repr(exc))]
    want = ref_selected(paths, patterns)
    extra = sorted(set(files) - set(want))
    missing = sorted(set(want) - set(files))
    if extra:
        cls = "hidden" if any(c.startswith(".") for c in extra[0].split("/")) else ("excluded" if ref_excluded(extra[0], BUILTIN + list(patterns)) else "unsupported")
        out.append(("unqualified-file-reported", dict(sig, cls=cls), f"patterns {patterns}: {extra[:5]}"))
    if missing:
        out.append(("qualifying-file-missing", sig, f"patterns {patterns}: {missing[:5]}"))
    for p in sorted(set(want) & set(files)):
        lang, chk = files[p]
        if lang != want[p]:
            out.append(("wrong-language", sig, f"{p}: {lang} expected {want[p]}"))
            break
        content = file_content(p)
        if chk != hashlib.md5(content if isinstance(content, bytes) else content.encode()).hexdigest():
            out.append(("wrong-checksum", sig, p))
            break
    if sorted(seen) != sorted(want):
        dup = len(seen) != len(set(seen))
        out.append(("analysed-set-differs", dict(sig, duplicates=dup), f"analysed {len(seen)} files, expected {len(want)}; only-analysed {sorted(set(seen) - set(want))[:4]} not-analysed {sorted(set(want) - set(seen))[:4]}"))
    return out


def _block(block, agg):
    kind = block[0]
    if kind == "universal":
        _, combos = block
        paths = universal_paths()
        # every other block of combinations scans a checkout that lies BELOW a hidden directory
        # blocks of combinations alternately scan a checkout that lies directly under the temp directory, BELOW a hidden directory,
        # and below directories whose names the default exclusions list (build/, tests/): only components below the root count
        with harness.temp_tree(under=[None, ".local/share", "build/tests/ws"][sum(len(p) for c in combos for p in c[0]) % 3]) as base:
            build(base / "proj", paths)
            for patterns, source, spelling in combos:
                files, seen, exc = run_scan(base, spelling, patterns, source)
                case = {"part": "universal", "patterns": patterns, "source": source, "spelling": spelling}
                sig = {"source": source, "spelling": spelling}
                viol = compare(paths, patterns, files, seen, exc, sig)
                agg.case(case, bool(patterns), None if files is None else len(files), sample=len(patterns) == 2)
                agg.transitions += 1
                for k, s, d in viol:
                    agg.violation(k, s, case, d)
    else:
        _, name = block
        viol = eval_degenerate(name)
        case = {"part": "degenerate", "tree": name}
        agg.case(case, True, name, sample=False)
        for k, s, d in viol:
            agg.violation(k, s, case, d)


DEGENERATE = {
    "empty": [],
    "only-hidden": [".a.py", ".hid/a.py", ".hid/src/b.js"],
    "only-excluded": ["tests/a.py", "build/b.js", "src/node_modules/c.ts", "venv/src/d.java"],
    "only-unsupported": ["n.txt", "src/m.rb", "noext"],
    "single": ["a.py"],
    # a backslash is an ordinary file-name character on POSIX: 'pkg\\util.py' in the root is not 'pkg/util.py'
    "backslash": ["pkg\\util.py", "pkg/util.py", "a\\b.js", "src/c\\d.ts"],
    # a source file larger than 1 MiB is still a source file
    "big-file": ["big.py", "src/a.py"],
    # the checksum is the checksum of the file's BYTES
    "line-ends-and-encodings": ["crlf.py", "src/cr.js", "src/latin.java", "a.py"],
    "deep": ["src/pkg/src/pkg/src/a.py", "src/pkg/src/.hid/pkg/a.py", "src/pkg/tests/pkg/a.py"],
    "pruned": None,
}


def eval_degenerate(name):
    out = []
    if name == "pruned":
        # files that do not qualify never influence the result: universal tree vs tree pruned to qualifying files
        paths = universal_paths()
        keep = sorted(ref_selected(paths, []))
        res = []
        for ps in (paths, keep):
            with harness.temp_tree() as base:
                build(base / "proj", ps)
                files, seen, exc = run_scan(base, "relative", [], "config")
                if exc is not None:
                    return [("scan-raises", {"tree": name, "error": type(exc).__name__}, repr(exc))]
                res.append((files, sorted(seen)))
        if res[0] != res[1]:
            out.append(("unqualified-files-influence-result", {"tree": name}, ""))
        return out
    paths = DEGENERATE[name]
    with harness.temp_tree() as base:
        (base / "proj").mkdir()
        build(base / "proj", paths)
        for spelling in ("relative", "absolute"):
            files, seen, exc = run_scan(base, spelling, [], "config")
            out += compare(paths, [], files, seen, exc, {"tree": name, "spelling": spelling})
    return out


def replay(case):
    if case["part"] == "degenerate":
        viol = eval_degenerate(case["tree"])
    else:
        paths = universal_paths()
        with harness.temp_tree() as base:
            build(base / "proj", paths)
            files, seen, exc = run_scan(base, case["spelling"], case["patterns"], case["source"])
            viol = compare(paths, case["patterns"], files, seen, exc, {"source": case["source"], "spelling": case["spelling"]})
    return [{"kind": k, "sig": s, "detail": d} for k, s, d in viol]


def run(ctx: core.Ctx):
    cal = calibrate()
    lists = [[]] + [[p] for p in PATTERNS]
    if not ctx.quick:
        lists += [list(c) for c in itertools.combinations(PATTERNS, 2)]
    else:
        lists += [["pkg", "*.js"], ["src/*", "a.py"], ["src/", "pkg/*"]]
    lists += NEGATION_LISTS
    spellings = ctx.pick(["relative", "absolute", "symlink-relative"], ["relative", "relative-from-parent", "absolute", "dotdot", "symlink-relative", "symlink-absolute"])
    combos = []
    for pats in lists:
        for source in ("config", "option", "gitignore"):
            for sp in spellings:
                combos.append((pats, source, sp))
        if len(pats) == 2 and not any(p.startswith("!") for p in pats):
            for sp in spellings:
                for src in ("split", "option+config", "option+gitignore"):
                    combos.append((pats, src, sp))
                    combos.append((pats[::-1], src, sp))
    ctx.bounds = {"dir_names": DIRS, "file_names": FILES, "depth": 2, "universal_tree_files": len(universal_paths()), "patterns": PATTERNS,
                  "max_patterns": ctx.pick(1, 2), "sources": ["config", "option", "gitignore", "config+gitignore", "option+config", "option+gitignore"], "spellings": spellings, "calibration": cal,
                  "degenerate_trees": list(DEGENERATE)}
    ctx.rule = ("case = (exclusion list, source, root spelling) scanned on the universal tree (every per-file decision over the name pool) + degenerate trees "
                "+ pruned-tree differential. Non-trivial: at least one user exclusion pattern. Outcome = number of files reported.")
    step = max(1, len(combos) // (ctx.workers * 2) + 1)
    blocks = [("universal", combos[i:i + step]) for i in range(0, len(combos), step)]
    blocks += [("degenerate", n) for n in DEGENERATE]
    ctx.run_blocks(_block, blocks)
