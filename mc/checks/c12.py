"""C12 - check and scan agree on every file.

E-prod over (way(s) of reaching files, exclusion configuration) on one tree that contains every
interesting file class (short, over-30 and over-60 functions, truncated, Latin-1, hidden file,
file in a hidden directory, built-in-excluded, config-excluded, unsupported) in two languages.
check_command runs in-process with the working directory at the codebase root; its output is
parsed and CheckResult.add is observed through a wrapper; scan_path gives the reference.
"""
from __future__ import annotations

import itertools
import re
from pathlib import Path

from mc import core, harness

ID = "C12"
LEVEL = "exploration"
TECHNIQUE = "exhaustive product (every way of naming files/directories, singly and in pairs) x exclusion source, check output compared with scan's measurements per file"
LEVEL_TEXT = ("Every file and directory of the tree is named as a relative path, every directory also as an absolute path, plus pairs of disjoint "
              "arguments, for each exclusion configuration (none / configured / root .gitignore); for every invocation the listed functions must "
              "be exactly scan's measurements over 30 lines for each reached file (names, positions, lengths, order, decoding), excluded and hidden "
              "files must be absent, every file scan analyses under a named directory must have been checked, and the count line must match.")
LEVEL_NOTE = ("A hidden file named explicitly as a file is not constrained by the property and is tolerated either way; a hidden DIRECTORY named explicitly "
              "is read literally (files below it are reached through a directory) - the code checks them: known finding K2.")

LINE = re.compile(r"^(?P<path>.+?):(?P<line>\d+):(?P<col>\d+): (?P<len>\d+) (?P<sym>\S) (?P<name>\S+)$")
SUMMARY = re.compile(r"^(\d+) files checked")


def tree():
    py, js = harness.py_function, harness.js_function
    t = {
        "short.py": py("small", 5),
        "long.py": py("mid", 31) + "\n" + py("huge", 61) + "\n" + py("ok", 30) + "\n" + py("mid2", 40),
        "trunc.py": py("before", 33) + "\ndef broken(a,\n    x = (1,\n",
        "latin.py": ("# caf\xe9\n" + py("caf\xe9_fn", 35)).encode("latin-1"),  # the NAME is not ASCII: decoding is observable
        ".hidden.py": py("hidden_fn", 61),
        ".hid/inner.py": py("inner_fn", 61),
        "tests/t.py": py("test_fn", 61),
        "gen/excl.py": py("gen_fn", 61),
        "gen/sub/excl2.js": js("genJs", 45),
        "notes.txt": "def not_code():\n" + "    x = 1\n" * 40,
        "src/long.js": js("midJs", 31) + "\n" + js("hugeJs", 61),
        "src/short.js": js("smallJs", 4),
        "src/deep/more.js": js("deepJs", 45) + "\n" + js("tie1", 45) + "\n" + js("tie2", 45),
        "src/deep/.dot.js": js("dotJs", 61),
        # language decided by a secondary extension / by the whole file name (no include guard in the header on purpose)
        "inc/api.h": "/* api */\nint api_fn(int a)\n{\n" + "    a = a + 1;\n" * 40 + "    return a;\n}\n",
        "BUILD": py("build_rule", 33),
        "LICENSE": "def not_code():\n" + "    x = 1\n" * 40,
        # the same kinds of name one level down (visited after the root's extension-less files in every walk) ...
        "tools/BUILD": py("tool_rule", 35),
        "tools/Makefile": "all:\n\techo not code\n",
        # ... and a folder name that is markup to a rich-text renderer (Next.js / SvelteKit dynamic routes)
        "app/[id]/route.js": js("routeJs", 47),
        # a folder whose entries are ALL hidden folders (they are neighbours in every listing order)
        "only/.a/x.py": py("hid_a", 61), "only/.b/y.py": py("hid_b", 61), "only/.c/z.js": js("hidC", 61),
        # a byte order mark in front of a long function that starts on line 1
        "bom.py": ("\ufeff" + py("bom_fn", 33)).encode("utf-8"),
        # a .gitignore BELOW the root is not an exclusion source of the tool: neither for scan nor for check of that folder
        "src/deep/.gitignore": "more.js\n", "inc/.gitignore": "*.h\n",
        # a file that is nothing but one 31-line function, last line not newline-terminated (file-size shortcuts misjudge it)
        "bare31.py": py("bare_fn", 31).rstrip("\n"),
        "src/bare31.js": js("bareJs", 31).rstrip("\n"),
        "bare61.py": py("bare_big", 61).rstrip("\n"),
        # suppression markers: scan omits these functions, so must check
        # classic-Mac line ends (bare CR): text-mode reading turns them into newlines, reading the bytes does not
        "mac.py": ("# legacy header\n" + py("legacy_fn", 34)).replace("\n", "\r").encode(),
        "mixed.js": ("// a\r\n" + js("mixedJs", 36)).replace("\n", "\r\n").encode(),
        "marked.py": py("kept_fn", 35) + "\n" + py("silenced_fn", 61).replace("def silenced_fn():", "def silenced_fn():  # nocl: generated"),
        "src/marked.js": js("keptJs", 33) + "\n" + js("silencedJs", 62).replace("function silencedJs() {", "function silencedJs() { // NOCL"),
    }
    return t


def all_dirs():
    ds = {"."}
    for p in tree():
        parts = p.split("/")[:-1]
        for i in range(1, len(parts) + 1):
            ds.add("/".join(parts[:i]))
    return sorted(ds)


def is_hidden(rel):
    return any(c.startswith(".") for c in rel.split("/"))


def setup(root: Path, excl):
    import os

    harness.write_files(root, tree())
    # two directory entries for one file: a symbolic link next to its target, and one in another folder
    os.symlink("long.py", str(root / "alias_long.py"))
    os.symlink("../long.py", str(root / "src" / "linked_long.py"))
    if excl == "gitignore":
        (root / ".gitignore").write_text("gen/\n")
    if excl == "gitignore-negation":
        # last match wins: one file below the excluded directory is re-included
        (root / ".gitignore").write_text("gen\n!gen/excl.py\n!tests/t.py\n*.js\n!src/long.js\n")


def configure(excl):
    from codelimit.common.Configuration import Configuration

    harness.reset_globals()
    if excl == "config":
        Configuration.exclude = ["gen/"]


def reference(root: Path, excl):
    """scan's view: {rel: [(name, line, col, length)] of measurements} for every file scan analyses"""
    from codelimit.common.Scanner import scan_path

    configure(excl)
    cb = scan_path(root)
    harness.reset_globals()
    return {rel: [(m.unit_name, m.start.line, m.start.column, m.value) for m in e.measurements()] for rel, e in cb.files.items()}


def eval_invocation(args, excl):
    """args: list of ('rel'|'abs', relative path string)"""
    from codelimit.commands import check as check_mod
    from codelimit.commands.check import check_command
    from codelimit.common.CheckResult import CheckResult

    out = []
    # two of the exclusion configurations run in a checkout that lies BELOW a hidden directory (hidden-ness is relative to the root)
    with harness.temp_tree(under=".cache/ws" if excl in ("config", "gitignore-negation") else None) as root:
        setup(root, excl)
        ref = reference(root, excl)
        paths = [Path(r) if mode == "rel" else (root / r if r != "." else root) for mode, r in args]
        added = []
        real_add = CheckResult.add

        def add(self, file, measurements):
            added.append(str(file))
            return real_add(self, file, measurements)

        CheckResult.add = add
        try:
            configure(excl)
            with harness.cwd(root):
                code, text, exc = harness.run_cli_function(check_command, paths, False, _reset=False)
        finally:
            CheckResult.add = real_add
            harness.reset_globals()
        sig = {"excl": excl}
        if exc is not None:
            return [("check-raises", dict(sig, error=type(exc).__name__), repr(exc))]
        # which files must / may be reached
        must, may = [], set()
        hidden_dir_named = False
        for mode, r in args:
            full = (root / r)
            if full.is_file():
                if r in ref:
                    must.append(r)
                elif is_hidden(r):
                    may.add(r)
            else:
                prefix = "" if r == "." else r + "/"
                if r != "." and is_hidden(r):
                    hidden_dir_named = True
                for rel in ref:
                    if rel.startswith(prefix):
                        must.append(rel)
        rows, nfiles = {}, None
        for l in text.splitlines():
            m = LINE.match(l.strip())
            if m:
                p = m["path"]
                rel = str(Path(p).relative_to(root)) if Path(p).is_absolute() else p
                rows.setdefault(rel, []).append((m["name"], int(m["line"]), int(m["col"]), int(m["len"])))
                continue
            s = SUMMARY.match(l.strip())
            if s:
                nfiles = int(s.group(1))
        added_rel = []
        for a in added:
            pa = Path(a)
            if not pa.is_absolute():
                pa = root / pa
            import os

            added_rel.append(os.path.relpath(os.path.normpath(str(pa)), str(root)))  # never resolve: a symlink is its own entry
        # clause: excluded / hidden files are absent
        for rel in sorted(set(added_rel) | set(rows)):
            if rel in must or rel in may:
                continue
            if is_hidden(rel):
                out.append(("hidden-file-checked-via-directory", dict(sig, explicit_hidden_dir=hidden_dir_named), f"{rel} reached through {args}"))
            else:
                out.append(("file-checked-that-scan-skips", sig, f"{rel} reached through {args} (scan analyses {sorted(ref)})"))
        # clause: every file scan analyses is checked
        for rel in must:
            if rel not in added_rel:
                out.append(("file-not-checked", sig, f"{rel} not passed to CheckResult.add for {args}"))
        # clause: listed functions = scan's measurements over 30, longest first
        for rel in set(must):
            want = sorted([t for t in ref[rel] if t[3] > 30], key=lambda t: -t[3])
            want = want * must.count(rel)
            got = rows.get(rel, [])
            if must.count(rel) == 1 and got != want:
                what = "order" if sorted(got) == sorted(want) else "content"
                out.append(("listing-differs-from-scan", dict(sig, what=what), f"{rel}: check lists {got}, scan measures {want}"))
        if nfiles is None or nfiles != len(added):
            out.append(("files-checked-count-wrong", sig, f"summary says {nfiles}, CheckResult.add was called {len(added)} times"))
        want_exit = 1 if any(t[3] > 60 for rel in set(added_rel) for t in ref.get(rel, [])) or any(n[3] > 60 for r_ in rows.values() for n in r_) else 0
        if code != want_exit:
            out.append(("exit-status-wrong", sig, f"exit {code}, expected {want_exit}"))
        return out


def invocations():
    files = sorted(tree()) + ["alias_long.py", "src/linked_long.py"]
    dirs = all_dirs()
    singles = [[("rel", f)] for f in files] + [[("rel", d)] for d in dirs] + [[("abs", d)] for d in dirs]
    pairs = []
    for a, b in itertools.combinations(["long.py", "latin.py", "trunc.py", "gen/excl.py", "src", "src/deep", "gen", "tests", "notes.txt", "inc/api.h", "BUILD"], 2):
        pairs.append([("rel", a), ("rel", b)])
        pairs.append([("rel", a), ("abs", b)] if "." not in b else [("rel", b), ("abs", "src")])
    return singles + pairs


def _block(block, agg):
    for args, excl in block:
        case = {"args": [list(a) for a in args], "excl": excl}
        viol = eval_invocation([tuple(a) for a in args], excl)
        agg.case(case, True, "ok" if not viol else viol[0][0], sample=len(args) == 2)
        agg.transitions += 2
        for k, sig, d in viol:
            agg.violation(k, sig, case, d)


def replay(case):
    return [{"kind": k, "sig": s, "detail": d} for k, s, d in eval_invocation([tuple(a) for a in case["args"]], case["excl"])]


def run(ctx: core.Ctx):
    inv = invocations()
    combos = [(a, e) for a in inv for e in ("none", "config", "gitignore", "gitignore-negation")]
    ctx.bounds = {"files": sorted(tree()), "directories": all_dirs(), "invocations": len(inv), "exclusions": ["none", "config gen/", ".gitignore gen/", ".gitignore gen !gen/excl.py !tests/t.py *.js !src/long.js"]}
    ctx.rule = ("case = (argument list, exclusion configuration): every file as relative path, every directory as relative and as absolute path, and pairs "
                "of arguments; each runs the real check_command (cwd = root) and scan_path (transitions = 2). Full product in both tiers.")
    step = max(1, len(combos) // (ctx.workers * 3) + 1)
    ctx.run_blocks(_block, [combos[i:i + step] for i in range(0, len(combos), step)])
