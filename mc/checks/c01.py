"""C01 - exact function discovery, span and length on canonical programs.

E-prod over G-canon programs for the 7 languages: (E1) small-scope full product of top-level
items x bodies, (E2) skeletons x all assignments with <= k deviations (statement kinds, header
styles, indentation unit), (E3) length sweeps over every header style / filler / parent-child
boundary pair. Every program goes through the real lex + scan_file; the reported
(name, start, end, length) list must equal the ground truth exactly.
"""
from __future__ import annotations

from mc import core
from mc.gen import canon, oracle, programs

ID = "C01"
LEVEL = "exploration"
TECHNIQUE = "bounded-exhaustive enumeration of canonical programs (small-scope product + deviation-bounded skeletons + length sweeps) against generator ground truth"
LEVEL_TEXT = ("Every program of the three bounded families is rendered, lexed and scanned by the real code; the full tuple list (name, start, "
              "end, own length) must equal the generator's ground truth (own lines computed from raw Pygments tokens). Exhaustive within "
              "the stated bounds for each of the 7 languages; not a proof for programs outside the canonical grammar.")
LEVEL_NOTE = ("Canonical grammar = mc/gen/canon.py (header styles, statement tables). Constructs deliberately outside it are listed in DESIGN.md "
              "section 4. Trusted: Pygments as tokenizer; generator positions are self-checked against the token stream in every case.")

E1_KINDS_QUICK = ["simple", "if"]
E2_QUICK_SKIP = set()


def stmt_kinds(lang):
    return [k for k in canon.statements(lang)]


def features(funcs, f):
    """structural class of a function for the violation signature"""
    kids = [g for g in funcs if g["parent"] == f["id"]]
    pos = "none"
    if f["parent"] is not None:
        pos = "nested"
    depth = 0
    p = f["parent"]
    while p is not None:
        depth += 1
        p = funcs[p]["parent"]
    return {"style": f["style"], "depth": depth, "has_children": bool(kids)}


def compare(lang, text, funcs):
    exp = oracle.expected(lang, text, funcs, canon.NESTS[lang])
    try:
        with core.time_limit(30):
            got = oracle.measured(lang, text)
    except core.Timeout:
        return exp, None, [("analysis-hangs", {"language": lang}, "")]
    except Exception as e:  # noqa
        return exp, None, [("analysis-raises", {"language": lang, "error": type(e).__name__}, repr(e))]
    if got == exp:
        return exp, got, []
    out = []
    by_name = {f["name"]: f for f in funcs}
    exp_names = [e[0] for e in exp]
    got_names = [g[0] for g in got]
    for name in exp_names:
        if name not in got_names:
            out.append(("function-missing", dict(language=lang, **features(funcs, by_name[name])), f"{name} not reported"))
    for name in got_names:
        if name not in exp_names:
            out.append(("spurious-function", {"language": lang, "name": name}, f"{name} reported but is not a function definition"))
        elif got_names.count(name) > 1:
            out.append(("function-duplicated", {"language": lang}, f"{name} reported {got_names.count(name)} times"))
    em = {e[0]: e for e in exp}
    for g in got:
        e = em.get(g[0])
        if e is None or got_names.count(g[0]) > 1:
            continue
        ft = features(funcs, by_name[g[0]])
        if g[1] != e[1]:
            out.append(("wrong-start", dict(language=lang, **ft), f"{g[0]}: start {g[1]}, expected {e[1]}"))
        if g[2] != e[2]:
            out.append(("wrong-end", dict(language=lang, **ft), f"{g[0]}: end {g[2]}, expected {e[2]}"))
        if g[3] != e[3]:
            out.append(("wrong-length", dict(language=lang, **ft), f"{g[0]}: length {g[3]}, expected {e[3]}"))
    if not out:
        out.append(("wrong-order", {"language": lang}, f"reported {got_names}, expected {exp_names}"))
    return exp, got, out


def eval_spec(spec):
    lang = spec["lang"]
    text, funcs = canon.render(spec)
    problems = oracle.selfcheck_truth(lang, text, funcs)
    if problems:
        raise core.HarnessError(f"generator ground truth does not bind to the token stream: {problems[:2]} in\n{text}")
    exp, got, viol = compare(lang, text, funcs)
    return text, exp, got, viol


def _run_specs(it, agg, family):
    for spec in it:
        text, exp, got, viol = eval_spec(spec)
        nontrivial = bool(exp) and bool(got)
        agg.case(spec, nontrivial, (len(exp), tuple(e[3] for e in exp)[:4]), sample=len(exp) >= 2)
        agg.extra[f"{family}:{spec['lang']}"] += 1
        for k, sig, d in viol:
            agg.violation(k, sig, {"spec": spec, "family": family}, d + "\n" + text[:1500])


def eval_tree_pass():
    """one real tree: canonical programs of every language, each text ALSO stored under the extensions of the other languages
    (byte-identical files in different languages); scan_path must give, for every file, what analysing that file alone with its
    own lexer gives - and for a file in its own language the generator's ground truth"""
    from pathlib import Path

    from codelimit.common.Scanner import scan_path
    from mc import harness

    files, truth = {}, {}
    for lang in canon.LANGS:
        sk = programs.skeletons(lang)
        for name in ("two", "func-global-func", "nested-middle", "class-two-methods"):
            if name not in sk:
                continue
            text, funcs = canon.render(sk[name])
            for other in canon.LANGS:
                rel = f"{canon.EXT[lang]}_as_{canon.EXT[other]}/{name.replace('-', '_')}.{canon.EXT[other]}"
                files[rel] = text
                truth[rel] = (other, text, oracle.expected(lang, text, funcs, canon.NESTS[lang]) if other == lang else None)
            # the same program indented with tabs, in its own language: what is read from disk is what is measured (columns included)
            ttext, tfuncs = canon.render(dict(sk[name], unit="\t"))
            rel = f"tabs/{name.replace('-', '_')}.{canon.EXT[lang]}"
            files[rel] = ttext
            truth[rel] = (lang, ttext, oracle.expected(lang, ttext, tfuncs, canon.NESTS[lang]))
    out = []
    with harness.temp_tree(files) as root:
        harness.reset_globals()
        cb = scan_path(Path(root))
        for rel, (lang, text, exp) in sorted(truth.items()):
            e = cb.files.get(rel)
            if e is None:
                out.append(("file-missing-from-scan", {"language": lang}, rel, ""))
                continue
            got = oracle.as_tuples(e.measurements())
            alone = oracle.measured(lang, text)
            if got != alone or e.language != lang:
                out.append(("scan-path-differs-from-analysing-the-file-alone", {"language": lang}, rel,
                            f"{rel}: scan_path gives {e.language} {got[:3]}, the file alone gives {lang} {alone[:3]}"))
            elif exp is not None and got != exp:
                out.append(("wrong-length", {"language": lang, "style": "same", "depth": 0, "has_children": False}, rel, f"{rel}: {got} expected {exp}"))
    return len(files), out


def _block(block, agg):
    family, lang, arg = block
    if family == "TREE":
        n, viol = eval_tree_pass()
        agg.case({"family": "TREE", "files": n}, True, f"tree of {n} files", sample=False)
        for k, sig, rel, d in viol:
            agg.violation(k, sig, {"family": "TREE", "file": rel}, d)
        return
    if family == "E1":
        kinds, max_items, max_stmts, shard, nshards = arg
        it = (s for i, s in enumerate(programs.e1_programs(lang, kinds, max_items, max_stmts)) if i % nshards == shard)
        _run_specs(it, agg, family)
    elif family == "E2":
        k, shard, nshards = arg
        it = (sp for i, (_, _, sp) in enumerate(programs.e2_programs(lang, stmt_kinds(lang), k)) if i % nshards == shard)
        _run_specs(it, agg, family)
    else:
        full, shard, nshards = arg
        it = (sp for i, (_, sp) in enumerate(programs.e3_programs(lang, full)) if i % nshards == shard)
        _run_specs(it, agg, family)


def replay(case):
    if case.get("family") == "TREE":
        _, viol = eval_tree_pass()
        return [{"kind": k, "sig": s, "detail": d} for k, s, rel, d in viol]
    _, _, _, viol = eval_spec(case["spec"])
    return [{"kind": k, "sig": s, "detail": d} for k, s, d in viol]


def run(ctx: core.Ctx):
    quick = ctx.quick
    ctx.bounds = {
        "E1": {"kinds": E1_KINDS_QUICK if quick else ["simple", "if", "<anonymous-function block>"], "max_items": 2 if quick else 3, "max_stmts": 2},
        "E2": {"max_deviations": 1 if quick else 2, "knobs": ["statement kind per slot (all kinds of the language)", "header style per function", "indentation unit"]},
        "E3": {"lengths": "boundary neighbours" if quick else "1..70", "parent/child": "boundary set"},
        "languages": canon.LANGS,
    }
    ctx.rule = ("case = one program spec (JSON) rendered by mc/gen/canon.py; E1 = all programs of <= max_items top-level items "
                "{function, class with one method, global statement, comment} with bodies of 1-2 statements over the kinds (+ nested function); "
                "E2 = each skeleton with every set of <= k deviations; E3 = length sweeps. Non-trivial: program has >= 1 function and >= 1 "
                "measurement was reported. Outcome = (number of functions, their lengths).")
    ctx.assumptions = ["Pygments 2.21 token stream defines code lines", "function names are unique per program (comparison is by name and position)"]
    nsh = ctx.workers if quick else ctx.workers * 4
    blocks = []
    for lang in canon.LANGS:
        kinds = list(E1_KINDS_QUICK) if quick else ["simple", "if", programs.anon_kind(lang)]
        for sh in range(nsh):
            blocks.append(("E1", lang, (kinds, 2 if quick else 3, 2, sh, nsh)))
            blocks.append(("E2", lang, (1 if quick else 2, sh, nsh)))
        for sh in range(4):
            blocks.append(("E3", lang, (not quick, sh, 4)))
    blocks.append(("TREE", None, None))
    ctx.run_blocks(_block, blocks)
