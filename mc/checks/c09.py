"""C09 - cache-assisted scans equal fresh scans over any edit history.

(A) Explicit-state fixpoint over the abstract state (path -> content | absent, exclusion
    config, cache document) with the REAL scan_command as transition function: every abstract
    state is materialised in a temp directory (files, exclusion source, cache file) and scanned;
    the cache it leaves behind (and every tampered variant of it) joins the state space until no
    new cache appears. File edits (write/delete/rename/swap/touch/exclusion change) only move
    between abstract states and need no real code - their closure is the full product.
(B) Conformance: real histories (op sequences incl. several scans) on ONE real directory,
    depth-bounded exhaustive; at every scan the same oracle, plus: the abstract successor
    predicted from (A) must equal the observed one.
Oracle at every scan: report == from-scratch report (up to uuid/timestamp); every selected file
whose (path, content, version) is not covered by the cache is really re-analysed (counted
through a wrapper around Scanner._analyze_file); report/findings refuse another version's cache.
"""
from __future__ import annotations

import copy
import hashlib
import itertools
import json
import os
from pathlib import Path

from mc import core, harness
from mc.checks.c10 import GITIGNORE, TAG, normalise

ID = "C09"
LEVEL = "model_checking"
TECHNIQUE = "explicit-state fixpoint over (files x exclusions x cache document) with the real scan as transition function, plus depth-bounded exhaustive real edit/scan histories as conformance check"
LEVEL_TEXT = ("The abstract state space (3 paths x {absent, 3 contents}) x 3 exclusion configurations x every cache document a scan can leave behind "
              "and every tampered variant of it (other version, entry dropped, checksum altered, extra entry) is explored to a fixpoint; in every "
              "state the real scan runs on a materialised directory and must equal the fresh scan, re-analyse everything the cache does not "
              "cover, and the viewers must refuse other-version caches. Real multi-scan histories on one directory validate the abstraction.")
LEVEL_NOTE = ("Abstraction argument: scan reads only the tree, the two exclusion sources and, from the cache, version and files[*].{checksum, language, "
              "loc, measurements}; uuid/timestamp/root/totals/tree are written but never consumed (validated by part B: same successor from real "
              "histories). 'Altered entries' = alterations the stated reuse rule can see (checksum, version, missing/extra path)."
              " Near edits (changes a sloppy digest cannot see) and sibling scenarios (creating / deleting / renaming a neighbour of an unchanged file) run as real scan histories.")

CONTENTS = {
    "c1": {"py": harness.py_function("short_fn", 4), "js": harness.js_function("shortFn", 4)},
    "c2": {"py": harness.py_function("long_fn", 31) + "\n" + harness.py_function("tiny", 2), "js": harness.js_function("longFn", 31)},
    "c3": {"py": "def broken(a,\n    x = (1,\n", "js": "function broken(a {\n  x = (1;\n"},
    # byte-identical under both languages: a lookup that ignores the path would carry the LANGUAGE of another file over
    "cx": {"py": "x = 1\n", "js": "x = 1\n"},
}
EXCL = ["none", "config", "gitignore"]
OTHER_VERSION = "0.0.0"

# (C) "near" edits: modifications that a checksum taken over anything but the file's bytes does not see. The base files are bytes
# (the Python one is Latin-1: not valid UTF-8); every variant changes what a from-scratch scan reports (a line number, a name).
_NB_PY = ("# caf\xe9 header\n" + harness.py_function("caf\xe9_fn", 6)).encode("latin-1")
_NB_JS = ("// header\n" + harness.js_function("shortFn", 5)).encode()


def _near(base: bytes, which: str) -> bytes:
    lines = base.split(b"\n")
    if which == "blank-line-top":
        return b"\n" + base
    if which == "blank-line-after-header":
        return b"\n".join(lines[:1] + [b""] + lines[1:])
    if which == "trailing-blanks-and-blank-line":
        return b"\n".join([lines[0] + b"   ", b"   "] + lines[1:])
    if which == "name-case":
        return base.replace(b"_fn", b"_FN").replace(b"shortFn", b"ShortFn")
    if which == "other-invalid-byte":
        return base.replace(b"\xe9", b"\xe8") if b"\xe9" in base else base.replace(b"shortFn", b"sh\xf8rtFn")
    if which == "comment-line-added":
        return lines[0] + b"\n" + (b"# more" if base is _NB_PY else b"// more") + b"\n" + b"\n".join(lines[1:])
    if which == "edit-beyond-64k":
        # the file grows a 70 kB comment block at the top; the only later change is one character of a name at its very end
        pad = (b"# " if base is _NB_PY else b"// ") + b"p" * 70 + b"\n"
        return pad * 1000 + base.replace(b"_fn", b"_fN").replace(b"shortFn", b"shortFN")
    if which == "padded-64k":
        pad = (b"# " if base is _NB_PY else b"// ") + b"p" * 70 + b"\n"
        return pad * 1000 + base
    raise ValueError(which)


NEAR_EDITS = ["edit-beyond-64k", "blank-line-top", "blank-line-after-header", "trailing-blanks-and-blank-line", "name-case", "other-invalid-byte", "comment-line-added"]



def content(path, cid):
    ext = path.rsplit(".", 1)[1]
    if cid == "nb":
        if ext in ("h", "c", "cpp", "cc", "hpp"):
            # a header whose content C and C++ measure differently (only C++ reports the macro-loop body as a nested unit)
            return ("int list_sum(struct list *head)\n{\n    int s = 0;\n    list_for_each(pos, head) {\n        s += pos->v;\n        s += 1;\n    }\n"
                    "    return s;\n}\n").encode()
        if ext == "ts":
            return b"function area(w: number): number {\n  return w;\n}\n"
        return _NB_PY if ext == "py" else _NB_JS
    if cid.startswith("nv:"):
        return _near(_NB_PY if ext == "py" else _NB_JS, cid[3:])
    return CONTENTS[cid][ext]


def md5(text):
    return hashlib.md5(text if isinstance(text, bytes) else text.encode("utf-8")).hexdigest()


def selected(files, excl):
    """paths the scan must report"""
    return {p for p in files if not (excl != "none" and p.startswith("d/"))}


def cache_canon(doc):
    if doc is None:
        return None
    files = doc.get("codebase", {}).get("files", {})
    return (doc.get("version"), tuple(sorted((p, f.get("checksum"), core.digest([f.get("language"), f.get("loc"), f.get("measurements")])) for p, f in files.items())))


def materialise(root: Path, files: dict, excl: str, cache_doc, touched: bool):
    for p, cid in files.items():
        if cid == "dangling":
            (root / p).parent.mkdir(parents=True, exist_ok=True)
            os.symlink(str(root / "does-not-exist"), str(root / p))
            continue
        harness.write_files(root, {p: content(p, cid)})
        if touched:
            os.utime(root / p, (1_000_000_000, 1_000_000_000))
    if excl == "gitignore":
        (root / ".gitignore").write_text("d/\n")
    if cache_doc is not None:
        c = root / ".codelimit_cache"
        c.mkdir()
        (c / "CACHEDIR.TAG").write_text(TAG)
        (c / ".gitignore").write_text(GITIGNORE)
        doc = copy.deepcopy(cache_doc)
        doc["root"] = str(root)
        (c / "codelimit.json").write_text(json.dumps(doc, indent=2))


class AnalyzeCounter:
    def __enter__(self):
        from codelimit.common import Scanner

        self.mod = Scanner
        self.real = Scanner._analyze_file
        self.seen = []

        def wrapped(path, rel_path, *a, **kw):
            self.seen.append(str(rel_path))
            return self.real(path, rel_path, *a, **kw)

        Scanner._analyze_file = wrapped
        return self

    def __exit__(self, *exc):
        self.mod._analyze_file = self.real
        return False


def scan_with_config(excl):
    from codelimit.commands.scan import scan_command
    from codelimit.common.Configuration import Configuration

    if excl == "config":
        Configuration.exclude = ["d/"]
    scan_command(Path("."))


def fresh_doc(root: Path, excl):
    from codelimit.common.Configuration import Configuration
    from codelimit.common.report.Report import Report
    from codelimit.common.report.ReportWriter import ReportWriter
    from codelimit.common.Scanner import scan_path

    harness.reset_globals()
    if excl == "config":
        Configuration.exclude = ["d/"]
    cb = scan_path(root)
    cb.aggregate()
    doc = normalise(json.loads(ReportWriter(Report(cb)).to_json()))
    harness.reset_globals()
    return doc


def _sorted_entries(doc):
    d = json.loads(json.dumps(doc))
    for v in (d.get("codebase", {}).get("tree") or {}).values():
        if isinstance(v, dict) and isinstance(v.get("entries"), list):
            v["entries"] = sorted(v["entries"], key=repr)
    return d


_NOTES = {}
_FRESH = {}  # from-scratch report per (file configuration, exclusion config); the real scan runs once per key and worker


def do_scan(root: Path, files, excl, cache_doc):
    """run the real scan in root (already materialised); returns (new cache doc, violations)"""
    from codelimit.common.report.Report import Report

    out = []
    all_files = files
    files = {p: c for p, c in files.items() if c != "dangling"}
    with AnalyzeCounter() as ac, harness.cwd(root):
        code, text, exc = harness.run_cli_function(scan_with_config, excl)
    harness.reset_globals()
    if exc is not None or code not in (None, 0):
        # does the from-scratch scan of the same tree fail the same way? (an unreadable entry such as a dangling symlink makes both fail)
        try:
            fresh_doc(root, excl)
            fresh_exc = None
        except Exception as fe:  # noqa
            fresh_exc = type(fe).__name__
        if exc is not None and fresh_exc == type(exc).__name__:
            return None, []
        return None, [("scan-fails", {"error": type(exc).__name__ if exc else f"exit-{code}"}, f"{exc!r} (from-scratch scan: {fresh_exc or 'completes'})")]
    new_doc = json.loads((root / ".codelimit_cache" / "codelimit.json").read_text())
    key = (tuple(sorted(files.items())), excl)
    if len(all_files) != len(files):
        try:
            want = fresh_doc(root, excl)
        except Exception as fe:  # noqa
            return new_doc, [("cached-scan-completes-where-fresh-scan-fails", {"error": type(fe).__name__}, f"files {all_files}")]
    else:
        if key not in _FRESH:
            d = fresh_doc(root, excl)
            d.pop("root", None)
            _FRESH[key] = d
        want = dict(_FRESH[key], root=new_doc.get("root"))
    sel = selected(files, excl)
    if normalise(new_doc) != want and _sorted_entries(normalise(new_doc)) == _sorted_entries(want):
        # same content, only the ORDER in which a folder lists its entries differs from the memoised reference, which was computed
        # in another directory (listing order is a property of the directory, not of the tree): judge against a from-scratch
        # scan of THIS directory in its present state
        want = fresh_doc(root, excl)
        want["root"] = new_doc.get("root")
        if normalise(new_doc) != want:
            out.append(("cached-scan-differs-from-fresh-scan", {"what": "listing-order"},
                        f"folder entries cached {[(k, v.get('entries')) for k, v in new_doc['codebase']['tree'].items()][:3]} "
                        f"fresh {[(k, v.get('entries')) for k, v in want['codebase']['tree'].items()][:3]}"))
    elif normalise(new_doc) != want:
        gf, wf = new_doc["codebase"]["files"], want["codebase"]["files"]
        what = "file-set" if set(gf) != set(wf) else ("file-entry" if gf != wf else "totals-or-tree")
        bad = sorted(set(gf) ^ set(wf)) or [p for p in wf if gf[p] != wf[p]]
        out.append(("cached-scan-differs-from-fresh-scan", {"what": what}, f"{bad[:3]}: cached {[gf.get(p) for p in bad[:2]]} fresh {[wf.get(p) for p in bad[:2]]}"))
    if set(want["codebase"]["files"]) != sel:
        # which files a from-scratch scan selects is C11's subject; here the from-scratch scan IS the reference, so carry on with it
        sel = set(want["codebase"]["files"])
        _NOTES["selection_reference_disagrees_with_fresh_scan(see C11)"] = _NOTES.get("selection_reference_disagrees_with_fresh_scan(see C11)", 0) + 1
    # reuse is permitted only for unchanged path + content under the same tool version
    permitted = set()
    if cache_doc is not None and cache_doc.get("version") == Report.VERSION:
        for p in sel:
            e = cache_doc["codebase"]["files"].get(p)
            if e is not None and e.get("checksum") == md5(content(p, files[p])):
                permitted.add(p)
    must = sel - permitted
    missed = must - set(ac.seen)
    if missed:
        why = "other-version" if (cache_doc is not None and cache_doc.get("version") != Report.VERSION) else "changed-or-uncached"
        out.append(("stale-cache-entry-reused", {"why": why}, f"{sorted(missed)} were not re-analysed although the cache does not cover them (analysed: {sorted(ac.seen)})"))
    return new_doc, out


def check_viewers(root: Path, cache_doc):
    """report / findings must refuse a cache written by another version"""
    from codelimit.commands.findings import findings_command
    from codelimit.commands.report import report_command
    from codelimit.common.report.ReportFormat import ReportFormat

    out = []
    with harness.cwd(root):
        for name, fn, args in (("report", report_command, (Path("."), ReportFormat.text, None)), ("findings", findings_command, (Path("."), False, ReportFormat.text)),
                               ("report-md", report_command, (Path("."), ReportFormat.markdown, None))):
            code, text, exc = harness.run_cli_function(fn, *args)
            if exc is not None:
                out.append(("viewer-raises-on-other-version", {"viewer": name, "error": type(exc).__name__}, repr(exc)))
            elif code != 1 or "version mismatch" not in text.lower() or "Overview" in text or "|" in text:
                out.append(("viewer-shows-other-version-report", {"viewer": name}, f"exit {code}: {text[:200]!r}"))
    return out


QUICK = {"on": False}


def tampered(doc, universe_paths):
    """tampered variants of a cache document: (label, doc)"""
    out = []
    d = copy.deepcopy(doc)
    d["version"] = OTHER_VERSION
    out.append(("other-version", d))
    from codelimit.common.report.Report import Report as _Rep

    parts = _Rep.VERSION.split(".")
    nears = (".".join(parts[:2] + ["0"]) if parts[2:] != ["0"] else ".".join(parts[:2] + ["9"]), ".".join(parts[:2]), _Rep.VERSION + ".post1")
    for near in nears[: (1 if QUICK["on"] else None)]:
        d = copy.deepcopy(doc)
        d["version"] = near  # another release of the same minor series
        out.append((f"near-version", d))
    d = copy.deepcopy(doc)
    del d["version"]  # documents written by old releases carry no version at all
    out.append(("no-version", d))
    if not QUICK["on"]:
        d = copy.deepcopy(doc)
        d["version"] = None
        out.append(("null-version", d))
    for p in sorted(doc["codebase"]["files"])[: (1 if QUICK["on"] else None)]:
        d = copy.deepcopy(doc)
        del d["codebase"]["files"][p]
        out.append((f"drop:{p}", d))
        d = copy.deepcopy(doc)
        d["codebase"]["files"][p]["checksum"] = "0" * 32
        out.append((f"alter:{p}", d))
    present = sorted(doc["codebase"]["files"])
    if present:
        d = copy.deepcopy(doc)
        d["codebase"]["files"]["ghost/zz.py"] = copy.deepcopy(d["codebase"]["files"][present[0]])
        out.append(("extra", d))
        # an entry moved to another path of the universe (same checksum, different path)
        for q in universe_paths:
            if q not in doc["codebase"]["files"] and q.rsplit(".", 1)[1] == present[0].rsplit(".", 1)[1]:
                d = copy.deepcopy(doc)
                d["codebase"]["files"][q] = copy.deepcopy(d["codebase"]["files"][present[0]])
                out.append((f"moved:{present[0]}->{q}", d))
                break
    return out


def eval_state(files, excl, cache_doc, touched):
    with harness.temp_tree() as root:
        materialise(root, files, excl, cache_doc, touched)
        viol = []
        from codelimit.common.report.Report import Report

        if cache_doc is not None and cache_doc.get("version") != Report.VERSION:
            viol += check_viewers(root, cache_doc)
        new_doc, v = do_scan(root, files, excl, cache_doc)
        return new_doc, viol + v


def file_configs(paths, cids):
    out = []
    for combo in itertools.product([None] + list(cids), repeat=len(paths)):
        out.append({p: c for p, c in zip(paths, combo) if c is not None})
    return out


def _block(block, agg):
    kind = block[0]
    if kind == "states":
        _, items = block
        res = []
        for files, excl, cache_doc, label in items:
            touched = core.digest([files, excl, label]) % 2 == 0
            new_doc, viol = eval_state(files, excl, cache_doc, touched)
            case = {"part": "state", "files": files, "excl": excl, "cache": cache_doc, "cache_label": label, "touched": touched}
            agg.case({"files": files, "excl": excl, "cache_label": label}, cache_doc is not None, "ok" if not viol else viol[0][0], sample=bool(cache_doc) and len(files) >= 2)
            agg.state([sorted(files.items()), excl, repr(cache_canon(cache_doc))])
            agg.transitions += 1
            for k, sig, d in viol:
                agg.violation(k, sig, case, d)
            if new_doc is not None:
                res.append(new_doc)
        agg.newdocs = getattr(agg, "newdocs", []) + res
    elif kind == "sibling":
        # creating / deleting / renaming a SIBLING file must not change what is reported for an unchanged file, cached or not
        _, a, b = block
        b2 = b.rsplit("/", 1)[0] + "/moved_" + b.rsplit("/", 1)[1]
        for seq in ([("write", a, "nb"), ("scan",), ("write", b, "nb"), ("scan",), ("delete", b), ("scan",)],
                    [("write", a, "nb"), ("write", b, "nb"), ("scan",), ("delete", b), ("scan",), ("write", b, "nb"), ("scan",)],
                    [("write", a, "nb"), ("write", b, "nb"), ("scan",), ("rename", b, b2), ("scan",)]):
            viol, n_scans = run_history([a, b, b2], ["nb"], seq)
            case = {"part": "history", "paths": [a, b, b2], "contents": ["nb"], "ops": [list(o) for o in seq]}
            agg.case({"ops": [list(o) for o in seq]}, True, "ok" if not viol else viol[0][0], sample=False)
            agg.transitions += n_scans
            agg.extra["sibling_scans"] += n_scans
            for k, sig, d in viol or []:
                agg.violation(k, dict({kk: vv for kk, vv in sig.items() if kk != "at_step"}, family="sibling"), case, d)
    elif kind == "moved":
        # the whole checkout, cache included, is moved / copied to another place (a CI cache restored into another workspace) or
        # scanned through a symbolic link: the cache-assisted scan there must equal a fresh scan there
        import shutil

        _, how = block
        files = {"a.py": "c1", "d/a.py": "c2", "d/c.js": "c1"}
        with harness.temp_tree() as parent:
            first = parent / "checkout_1" / "proj"
            first.mkdir(parents=True)
            materialise(first, files, "none", None, False)
            with harness.cwd(first):
                code, _t, exc = harness.run_cli_function(scan_with_config, "none")
            harness.reset_globals()
            if exc is not None or code not in (None, 0):
                agg.violation("scan-fails", {"error": type(exc).__name__ if exc else f"exit-{code}", "family": "moved"}, {"part": "moved", "how": how}, repr(exc))
                return
            cache_doc = json.loads((first / ".codelimit_cache" / "codelimit.json").read_text())
            second = parent / "checkout_2" / "proj"
            second.parent.mkdir()
            if how == "move":
                shutil.move(str(first), str(second))
            elif how == "copy":
                shutil.copytree(str(first), str(second), symlinks=True)
            else:
                os.symlink(str(first), str(second))
            new_doc, viol = do_scan(second, dict(files), "none", cache_doc)
            case = {"part": "moved", "how": how}
            agg.case(case, True, "ok" if not viol else viol[0][0], sample=False)
            agg.transitions += 2
            for k, sig, d in viol:
                agg.violation(k, dict(sig, family="moved-checkout", how=how), case, d)
    elif kind == "near":
        _, p, other, edit = block
        for first, second in ((("nv:padded-64k", "nv:edit-beyond-64k"), ("nv:edit-beyond-64k", "nv:padded-64k")) if edit == "edit-beyond-64k"
                              else (("nb", "nv:" + edit), ("nv:" + edit, "nb"))):
            seq = [("write", other, "nb"), ("write", p, first), ("scan",), ("write", p, second), ("scan",), ("scan",)]
            viol, n_scans = run_history([p, other], [first, second], seq)
            case = {"part": "history", "paths": [p, other], "contents": [first, second], "ops": [list(o) for o in seq]}
            agg.case({"ops": [list(o) for o in seq]}, True, "ok" if not viol else viol[0][0], sample=False)
            agg.transitions += n_scans
            agg.extra["near_edit_scans"] += n_scans
            for k, sig, d in viol or []:
                agg.violation(k, dict({kk: vv for kk, vv in sig.items() if kk != "at_step"}, edit=edit), case, d)
    else:
        _, paths, cids, prefix, depth = block
        run_histories(paths, cids, prefix, depth, agg)


# ---------------------------------------------------------------------------------------
# (B) real histories on one directory
# ---------------------------------------------------------------------------------------

def history_ops(paths, cids):
    ops = [("scan",)]
    for p in paths:
        for c in cids:
            ops.append(("write", p, c))
        ops.append(("delete", p))
        ops.append(("touch", p))
        ops.append(("dangle", p))
    for p, q in itertools.permutations(paths, 2):
        if p.rsplit(".", 1)[1] == q.rsplit(".", 1)[1]:
            ops.append(("rename", p, q))
    for p, q in itertools.combinations(paths, 2):
        ops.append(("swap", p, q))
    for e in EXCL:
        ops.append(("excl", e))
    ops += [("tamper", "other-version"), ("tamper", "no-version"), ("tamper", "alter-first"), ("tamper", "drop-first"), ("tamper", "truncate")]
    return ops


def apply_op(root: Path, st, op):
    """st = {'files': {p: cid}, 'excl': e}; returns False if the op is not enabled"""
    files = st["files"]
    k = op[0]
    if k == "write":
        if files.get(op[1]) == "dangling":
            (root / op[1]).unlink()
        harness.write_files(root, {op[1]: content(op[1], op[2])})
        files[op[1]] = op[2]
    elif k == "delete":
        if op[1] not in files:
            return False
        (root / op[1]).unlink()
        del files[op[1]]
    elif k == "dangle":
        # the path stays listed but cannot be read any more (dangling symbolic link)
        if op[1] not in files or files[op[1]] == "dangling":
            return False
        (root / op[1]).unlink()
        os.symlink(str(root / "does-not-exist"), str(root / op[1]))
        files[op[1]] = "dangling"
    elif k == "touch":
        if op[1] not in files or files[op[1]] == "dangling":
            return False
        os.utime(root / op[1], (1_200_000_000, 1_200_000_000))
    elif k == "rename":
        if op[1] not in files:
            return False
        (root / op[2]).parent.mkdir(parents=True, exist_ok=True)
        os.replace(root / op[1], root / op[2])
        files[op[2]] = files.pop(op[1])
    elif k == "swap":
        if op[1] not in files or op[2] not in files or "dangling" in (files[op[1]], files[op[2]]):
            return False
        a, b = (root / op[1]).read_text(), (root / op[2]).read_text()
        if op[1].rsplit(".", 1)[1] != op[2].rsplit(".", 1)[1]:
            return False
        (root / op[1]).write_text(b)
        (root / op[2]).write_text(a)
        files[op[1]], files[op[2]] = files[op[2]], files[op[1]]
    elif k == "excl":
        if st["excl"] == op[1]:
            return False
        gi = root / ".gitignore"
        if op[1] == "gitignore":
            gi.write_text("d/\n")
        elif gi.exists():
            gi.unlink()
        st["excl"] = op[1]
    elif k == "tamper":
        rp = root / ".codelimit_cache" / "codelimit.json"
        if not rp.exists():
            return False
        raw = rp.read_text()
        if op[1] == "truncate":
            rp.write_text(raw[: len(raw) // 2])
            return True
        try:
            doc = json.loads(raw)
        except ValueError:
            return False
        fs = sorted(doc["codebase"]["files"])
        if op[1] == "other-version":
            doc["version"] = OTHER_VERSION
        elif op[1] == "no-version":
            doc.pop("version", None)
        elif not fs:
            return False
        elif op[1] == "alter-first":
            doc["codebase"]["files"][fs[0]]["checksum"] = "f" * 32
        else:
            del doc["codebase"]["files"][fs[0]]
        rp.write_text(json.dumps(doc))
    return True


def run_history(paths, cids, ops_seq):
    """execute one history on a fresh real directory; returns list of violations (first failing scan stops it)"""
    with harness.temp_tree() as root:
        st = {"files": {}, "excl": "none"}
        n_scans = 0
        for i, op in enumerate(ops_seq):
            if op[0] != "scan":
                if not apply_op(root, st, op):
                    return None, n_scans
                continue
            rp = root / ".codelimit_cache" / "codelimit.json"
            cache_doc = None
            if rp.exists():
                try:
                    cache_doc = json.loads(rp.read_text())
                    if not isinstance(cache_doc, dict) or "codebase" not in cache_doc:
                        cache_doc = None
                except ValueError:
                    cache_doc = None
            new_doc, viol = do_scan(root, dict(st["files"]), st["excl"], cache_doc)
            n_scans += 1
            if viol:
                return [(k, dict(s, at_step=i), d) for k, s, d in viol], n_scans
            if new_doc is None:
                continue  # the scan failed exactly like the from-scratch scan (unreadable entry): nothing was written
            # abstraction validation: the same abstract state materialised from scratch must have the same successor
            mat_doc, _ = eval_state(dict(st["files"]), st["excl"], cache_doc, False)
            a, b = normalise(new_doc), normalise(mat_doc) if mat_doc else None
            for d in (a, b):
                if d:
                    d.pop("root", None)
            if a != b:
                return [("scan-depends-on-history-beyond-abstract-state", {"at_step": i}, "real history and materialised state disagree on the successor cache")], n_scans
        return [], n_scans


def run_histories(paths, cids, prefix, depth, agg):
    ops = history_ops(paths, cids)
    for tail in itertools.product(range(len(ops)), repeat=depth - len(prefix)):
        seq = [ops[i] for i in prefix] + [ops[i] for i in tail] + [("scan",)]
        # canonical pruning: a history is interesting only if it contains an earlier scan (so a cache exists)
        if ("scan",) not in seq[:-1]:
            continue
        viol, n_scans = run_history(paths, cids, seq)
        if viol is None:
            agg.extra["history_with_disabled_op"] += 1
            continue
        case = {"part": "history", "paths": paths, "contents": cids, "ops": [list(o) for o in seq]}
        agg.case({"ops": [list(o) for o in seq]}, True, "ok" if not viol else viol[0][0], sample=n_scans >= 2 and len(seq) >= 4)
        agg.transitions += n_scans
        agg.extra["history_scans"] += n_scans
        for k, sig, d in viol:
            agg.violation(k, {kk: vv for kk, vv in sig.items() if kk != "at_step"}, case, d)


def replay(case):
    if case["part"] == "moved":
        agg = core.Agg()
        _block(("moved", case["how"]), agg)
        return [r for lst in agg.violations.values() for _, r in lst][:3]
    if case["part"] == "state":
        _, viol = eval_state(case["files"], case["excl"], case["cache"], case.get("touched", False))
    else:
        viol, _ = run_history(case["paths"], case["contents"], [tuple(o) for o in case["ops"]])
        viol = [(k, {kk: vv for kk, vv in s.items() if kk != "at_step"}, d) for k, s, d in (viol or [])]
    return [{"kind": k, "sig": s, "detail": d} for k, s, d in viol]


def run(ctx: core.Ctx):
    import multiprocessing as mp

    paths = ctx.pick(["a.py", "d/a.py", "d/c.js"], ["a.py", "d/a.py", "d/c.js"])  # same basename in two folders, two languages
    cids = ctx.pick(["c1", "cx"], ["c1", "c2", "c3", "cx"])
    hist_paths, hist_cids, hist_depth = ["a.py", "d/a.py"], ["c1", "c2"], ctx.pick(3, 4)
    QUICK["on"] = ctx.quick
    configs = file_configs(paths, cids)
    ctx.bounds = {"paths": paths, "contents": cids, "exclusions": EXCL, "file_configurations": len(configs),
                  "history_universe": {"paths": hist_paths, "contents": hist_cids, "ops": len(history_ops(hist_paths, hist_cids)), "max_ops_before_final_scan": hist_depth}}
    ctx.rule = ("(A) states = distinct (file configuration, exclusion config, canonical cache document); one real scan per state (transitions); the set of "
                "cache documents is closed under 'cache left by any scan' and under tampering (other version, drop/alter each entry, extra entry, entry "
                "moved to another path), iterated to a fixpoint. (B) every op sequence of the history universe up to the bound that contains an earlier "
                "scan, executed on one real directory. Non-trivial: a cache document exists when the scan starts.")
    ctx.assumptions = ["file edit operations change only the abstract state components they name (they are executed for real in part B)"]
    # (A) fixpoint over cache documents
    caches = {None: (None, "none")}  # canon -> (doc, label)
    done = set()
    rounds = 0
    while True:
        todo = []
        for canon, (doc, label) in list(caches.items()):
            if canon in done:
                continue
            done.add(canon)
            for files in configs:
                for excl in (EXCL[:2] if ctx.quick else EXCL):
                    todo.append((files, excl, doc, label))
        if not todo:
            break
        rounds += 1
        step = max(1, len(todo) // (ctx.workers * 4) + 1)
        chunks = [todo[i:i + step] for i in range(0, len(todo), step)]
        newdocs = _run_state_chunks(ctx, chunks)
        for nd in sorted(newdocs, key=lambda d: repr(cache_canon(d))):
            for lab, d in [("scan", nd)] + tampered(nd, paths):
                c = cache_canon(d)
                if c not in caches:
                    # the label must not depend on which worker finished first
                    caches[c] = (d, f"{lab.split(':')[0]}#{core.digest(repr(c)) % 10**8:08d}")
    ctx.bounds["fixpoint_rounds"] = rounds
    ctx.bounds["distinct_cache_documents"] = len(caches)
    # (B) histories
    ops = history_ops(hist_paths, hist_cids)
    blocks = [("hist", hist_paths, hist_cids, [i], hist_depth) for i in range(len(ops))]
    # (C) near edits, both directions, on a Latin-1 Python file and a JavaScript file
    for p, other in (("a.py", "d/c.js"), ("d/c.js", "a.py")):
        for edit in NEAR_EDITS:
            blocks.append(("near", p, other, edit))
    for a, b in (("s/x.h", "s/y.cpp"), ("s/x.h", "s/y.cc"), ("s/b.js", "s/b.ts"), ("s/x.c", "s/x.h"), ("s/a.py", "s/a.js")):
        blocks.append(("sibling", a, b))
    for how in ("move", "copy", "symlink"):
        blocks.append(("moved", how))
    ctx.bounds["near_edits"] = NEAR_EDITS
    ctx.bounds["sibling_pairs"] = ["x.h + y.cpp", "x.h + y.cc", "b.js + b.ts", "x.c + x.h", "a.py + a.js"]
    ctx.run_blocks(_block, blocks)


def _worker_states(chunk):
    agg = core.Agg()
    try:
        _block(("states", chunk), agg)
    except Exception:
        import traceback

        agg.notes.add("HARNESS-ERROR states chunk: " + traceback.format_exc()[-1500:])
    docs = getattr(agg, "newdocs", [])
    agg.newdocs = []
    return agg, docs


def _run_state_chunks(ctx, chunks):
    import multiprocessing as mp

    newdocs = []
    seen = set()
    with mp.get_context("fork").Pool(min(ctx.workers, len(chunks))) as pool:
        for agg, docs in pool.imap_unordered(_worker_states, chunks, chunksize=1):
            ctx.agg.merge(agg)
            for d in docs:
                c = cache_canon(d)
                if c not in seen:
                    seen.add(c)
                    newdocs.append(d)
    return newdocs
