"""C08 - the report document is always valid JSON and round-trips losslessly.

E-prod over reports: small codebases x a hostile-string alphabet substituted into every
string-valued field (singles, then pairs of fields with the most hostile strings) x repository
present/absent x version present/absent; pretty and compact documents are both produced.
"""
from __future__ import annotations

import itertools
import json
import os

from mc import core, harness

ID = "C08"
LEVEL = "exploration"
TECHNIQUE = "exhaustive product of hostile strings x string-valued fields (singles and pairs) x flags through the real ReportWriter/ReportReader"
LEVEL_TEXT = ("Every string of a 19-string hostile alphabet (quotes, backslashes, control, non-ASCII, astral, format-like) is placed in every "
              "string-valued field of the report one at a time, and every pair of fields gets every pair of the 7 most hostile strings, for "
              "all combinations of repository / version presence over 4 codebases; both documents must parse to the same value, the "
              "re-read report must equal the original field by field and re-serialise to the same text up to the timestamp.")
LEVEL_NOTE = "Bounds: alphabet and base codebases in evidence.bounds. Strings containing '/' are not placed in path components (they would be other paths)."

# every hostile character alone, at the start, in the middle and at the END of a string (a trailing newline is not the
# same as an embedded one for `$`-anchored regular expressions), plus format-like strings
_HOSTILE_CHARS = ['"', "\\", "\n", "\r", "\t", "\x01", "\x7f", "\x0c", "\u2028", "\u0085", "é", "日本", "😀", "'"]
STRINGS = ["a"] + [f for c in _HOSTILE_CHARS for f in (c, c + "a", "a" + c + "b", "main" + c)] + \
          ['\\"', "a\\\\", '"}', "{0}", "%s", "${x}", "\\u0041", "a\r\n", " a ", "\n\n", "true", "null", "0"] + \
          ["~", "~/proj", "~user/x", os.path.expanduser("~") + "fs/p", os.path.expanduser("~") + "/p"]  # home-directory spellings (any field, the root above all)
HOSTILE = ['a"b', "a\\b", '\\"', "a\nb", '"}', "😀", "a\\", "main\n", "\r"]
FIELDS = ["root", "dir", "stem", "function", "owner", "repo", "branch", "checksum", "version"]
BASES = {
    "two-files": [("{dir}/{stem}.py", "Python", [16, 31]), ("b.js", "JavaScript", [61])],
    "one-file": [("{stem}.py", "Python", [5])],
    "empty": [],
    "nested": [("{dir}/e/{stem}.py", "Python", [15]), ("{dir}/b.js", "JavaScript", [31, 61]), ("x/y/z.java", "Java", [])],
    # the files of one folder are NOT adjacent in the file order (a merged / partial report), a folder reappears later
    "interleaved": [("{dir}/{stem}.py", "Python", [16]), ("main.py", "Python", [5]), ("{dir}/b.py", "Python", [31]), ("z.js", "JavaScript", [61]),
                    ("{dir}/e/c.js", "JavaScript", [4]), ("y.py", "Python", [])],
    # the stored line total is a field of its own: 0 with functions, non-zero without, different from the sum (4th item = loc)
    # numbers beyond 32 and 53 bits (a generated file, a bundle on one line): JSON has no integer limit and neither has the report
    "big-numbers": [("{stem}.py", "Python", [2 ** 31, 5, 2 ** 31 - 1], 2 ** 40), ("b.js", "JavaScript", [10 ** 12]), ("{dir}/c.java", "Java", [2 ** 53 + 1, 61], 2 ** 63)],
    # the same measurement (name, span, length) more than once in a file's list, also as its last element (merged reports)
    "dup-measurements": [("{stem}.py", "Python", [12, 31, 12], None, "dup"), ("b.js", "JavaScript", [61, 61], None, "dup")],
    "odd-loc": [("{stem}.py", "Python", [12, 7], 0), ("b.js", "JavaScript", [], 20), ("{dir}/c.java", "Java", [61], 100), ("{dir}/d.java", "Java", [31], 1)],
}


def build(base, sub, with_repo, with_version):
    from codelimit.common.Codebase import Codebase
    from codelimit.common.GithubRepository import GithubRepository
    from codelimit.common.report.Report import Report

    v = {"root": "/r", "dir": "d", "stem": "a", "function": "f", "owner": "o", "repo": "n", "branch": "main",
         "checksum": "c" * 32, "version": "9.9.9"}
    v.update(sub)
    cb = Codebase(v["root"])
    files = []
    for tmpl, lang, lengths, *loc in BASES[base]:
        path = tmpl.format(dir=v["dir"], stem=v["stem"])
        names = [v["function"] + str(i) for i in range(len(lengths))]
        entry = harness.file_entry(path, lang, lengths, checksum=v["checksum"], names=names)
        if loc and loc[0] is not None:
            entry.loc = loc[0]
        if len(loc) > 1 and loc[1] == "dup":
            ms = entry.measurements()
            ms[-1] = ms[0]  # the last measurement IS the first one again (same object, hence equal in every field)
        cb.add_file(entry)
        files.append((path, lang, lengths, names))
    cb.aggregate()
    if with_repo == "tag":
        # a checkout of a TAG: there is no branch (the tag itself is not part of the document)
        rep = Report(cb, GithubRepository(v["owner"], v["repo"], branch=None, tag=v["branch"]))
    else:
        rep = Report(cb, GithubRepository(v["owner"], v["repo"], branch=v["branch"]) if with_repo else None)
    if "uuid" in v:
        rep.uuid = v["uuid"]
    rep.version = v["version"] if with_version else None
    return rep, v, files


def describe(rep):
    cb = rep.codebase
    return {
        "version": rep.version, "uuid": rep.uuid, "root": cb.root,
        "repository": None if rep.repository is None else (rep.repository.owner, rep.repository.name, rep.repository.branch),
        "files": [(p, e.checksum(), e.language, e.loc,
                   [(m.unit_name, m.start.line, m.start.column, m.end.line, m.end.column, m.value) for m in e.measurements()])
                  for p, e in cb.files.items()],
        "totals": {k: (t.files, t.loc, t.functions, t.hard_to_maintain, t.unmaintainable) for k, t in cb.totals.items()},
        "tree": {k: (sorted(e.name for e in f.entries), list(f.profile)) for k, f in cb.tree.items()},
    }


def strip_ts(text):
    return [l for l in text.replace(", \"timestamp\"", "\n\"timestamp\"").splitlines() if '"timestamp"' not in l]


def eval_case(base, sub, with_repo, with_version, ambient=False):
    """ambient: a repository is configured process-wide (as `codelimit scan` inside a GitHub checkout does) while the
    report is written and read - it must not leak into a report that has none"""
    from codelimit.common.Configuration import Configuration
    from codelimit.common.GithubRepository import GithubRepository

    try:
        return _eval_case(base, sub, with_repo, with_version, ambient)
    finally:
        Configuration.repository = None


def _eval_case(base, sub, with_repo, with_version, ambient=False):
    from codelimit.common.report.ReportReader import ReportReader
    from codelimit.common.report.ReportWriter import ReportWriter

    out = []
    rep, v, files = build(base, sub, with_repo, with_version)
    fields = "+".join(sorted(sub)) or "none"
    docs = {}
    for mode, pretty in (("pretty", True), ("compact", False)):
        try:
            text = ReportWriter(rep, pretty_print=pretty).to_json()
        except Exception as e:  # noqa
            out.append(("writer-raised", {"mode": mode, "error": type(e).__name__}, repr(e)))
            return out
        try:
            docs[mode] = (text, json.loads(text))
        except ValueError as e:
            out.append(("document-not-json", {"mode": mode}, f"fields={fields}: {e}: ...{text[max(0, e.pos - 40):e.pos + 20]!r}" if hasattr(e, "pos") else str(e)))
    if len(docs) < 2:
        return out
    if docs["pretty"][1] != docs["compact"][1]:
        out.append(("pretty-and-compact-differ", {}, f"fields={fields}"))
    text, doc = docs["pretty"]
    if ambient:
        # from here on (reading, re-writing) a repository is configured process-wide
        from codelimit.common.Configuration import Configuration
        from codelimit.common.GithubRepository import GithubRepository

        Configuration.repository = GithubRepository("ambient-owner", "ambient-name", branch="ambient-branch")
    if not with_repo and "repository" in doc:
        out.append(("document-content-wrong", {"what": "repository-written-for-a-report-without-one"}, repr(doc.get("repository"))))
    # the document says what the report holds
    want_doc_files = [p for p, _, _, _ in files]
    if doc.get("root") != v["root"] or list(doc["codebase"]["files"].keys()) != want_doc_files:
        out.append(("document-content-wrong", {"what": "root-or-paths"}, f"root={doc.get('root')!r} files={list(doc['codebase']['files'])}"))
    if with_repo and doc.get("repository") != {"owner": v["owner"], "name": v["repo"], "branch": None if with_repo == "tag" else v["branch"]}:
        out.append(("document-content-wrong", {"what": "repository"}, repr(doc.get("repository"))))
    if with_version and doc.get("version") != v["version"]:
        out.append(("document-content-wrong", {"what": "version"}, repr(doc.get("version"))))
    if not with_version and doc.get("version") not in (None,):
        out.append(("document-content-wrong", {"what": "absent-version-written"}, repr(doc.get("version"))))
    try:
        ver = ReportReader.get_report_version(text)
        if ver != (v["version"] if with_version else None):
            out.append(("get-report-version-wrong", {"with_version": with_version}, f"{ver!r}"))
        back = ReportReader.from_json(text)
    except Exception as e:  # noqa
        out.append(("reader-raised", {"error": type(e).__name__}, f"fields={fields}: {e!r}"))
        return out
    # reading is repeatable: the same text read again (same process) gives the same report
    try:
        back2 = ReportReader.from_json(text)
        ver2 = ReportReader.get_report_version(text)
        back3 = ReportReader.from_json(docs["compact"][0])
    except Exception as e:  # noqa
        out.append(("reader-raised", {"error": type(e).__name__, "read": "second"}, f"fields={fields}: {e!r}"))
        return out
    if describe(back2) != describe(back) or ver2 != ver or describe(back3) != describe(back):
        diff = [k for k in describe(back) if describe(back)[k] != describe(back2)[k] or describe(back)[k] != describe(back3)[k]]
        out.append(("second-read-differs", {"what": diff[0] if diff else "version"}, f"fields={fields}: {diff}"))
    a, b = describe(rep), describe(back)
    for key in a:
        if a[key] != b[key]:
            out.append(("round-trip-loses-" + key, {"with_version": with_version} if key == "version" else {},
                        f"{key}: wrote {a[key]!r}, read back {b[key]!r}"))
    for mode, pretty in (("pretty", True), ("compact", False)):
        again = ReportWriter(back, pretty_print=pretty).to_json()
        if strip_ts(again) != strip_ts(docs[mode][0]):
            out.append(("rewrite-differs", {"mode": mode}, "writing the re-read report does not reproduce the document"))
    return out


def near_versions():
    """version strings that differ from the running version but are 'close' to it"""
    from codelimit.common.report.Report import Report

    v = Report.VERSION
    parts = v.split(".")
    out = {v + ".post1", v + "rc1", ".".join(parts[:2]), ".".join(parts[:2] + ["0"]), ".".join(parts[:2] + [str(int(parts[2]) + 1)]) if parts[2:] and parts[2].isdigit() else v + ".1",
           "v" + v, v + " ", v.replace(".", "_"), v}
    return sorted(out)


def cases(tier):
    flags = list(itertools.product([True, False], [True, False]))
    for base in BASES:
        for wr, wv in flags:
            yield base, {}, wr, wv
            for f in FIELDS:
                for s in STRINGS:
                    yield base, {f: s}, wr, wv
    for base in BASES:
        for nv in near_versions():
            yield base, {"version": nv}, True, True
            yield base, {"version": nv}, False, True
    for base in BASES:
        yield base, {}, "tag", True
        yield base, {"branch": "v1.2.3"}, "tag", False
        # identifiers that are UUIDs in a non-canonical spelling, and identifiers that are no UUIDs at all: the identifier is just a string
        for u in ("6F9619FF-8B86-D011-B42D-00C04FC964FF", "{6f9619ff-8b86-d011-b42d-00c04fc964ff}", "urn:uuid:6f9619ff-8b86-d011-b42d-00c04fc964ff",
                  "6f9619ff8b86d011b42d00c04fc964ff", "not-a-uuid", "", "0"):
            yield base, {"uuid": u}, True, True
    pair_bases = ["two-files"] if tier == "quick" else ["two-files", "nested"]
    pair_strings = HOSTILE if tier == "quick" else STRINGS
    for base in pair_bases:
        for f1, f2 in itertools.combinations(FIELDS, 2):
            for s1 in pair_strings:
                for s2 in pair_strings:
                    for wr, wv in flags:
                        yield base, {f1: s1, f2: s2}, wr, wv


def _block(block, agg):
    for base, sub, wr, wv in block:
        ambient = (len(sub) <= 1 and core.digest([base, sub, wr, wv]) % 2 == 0)
        case = {"base": base, "sub": sub, "repo": wr, "version": wv, "ambient": ambient}
        viol = eval_case(base, sub, wr, wv, ambient)
        agg.case(case, bool(sub) and any(s != "a" for s in sub.values()), "ok" if not viol else viol[0][0], sample=len(sub) == 2)
        for k, sig, d in viol:
            agg.violation(k, sig, case, d)


def replay(case):
    return [{"kind": k, "sig": s, "detail": d} for k, s, d in eval_case(case["base"], case["sub"], case["repo"], case["version"], case.get("ambient", False))]


def run(ctx: core.Ctx):
    allc = list(cases(ctx.tier))
    ctx.bounds = {"strings": STRINGS, "pair_strings": HOSTILE, "fields": FIELDS, "bases": {k: [t[0] for t in v] for k, v in BASES.items()}}
    ctx.rule = ("case = (base codebase, {field: string}, repository?, version?); singles: every string in every field on every base; pairs: "
                "every pair of fields x every pair of hostile strings; both pretty and compact documents produced per case. "
                "Non-trivial: at least one substituted string other than 'a'.")
    step = max(1, len(allc) // (ctx.workers * 4) + 1)
    ctx.run_blocks(_block, [allc[i:i + step] for i in range(0, len(allc), step)])
