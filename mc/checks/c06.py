"""C06 - analysis is deterministic, order-independent and isolated per file.

(a) E-choice over every iteration order the hash seed could induce where set order reaches
    behaviour: Expression.state_set_transitions is replaced by a version whose result order is
    chosen by the explorer - (a1) one permutation per distinct predicate set, all assignments;
    (a2) one permutation per CALL, all executions with <= k deviations from the default order.
(b) E-choice over directory traversal orders: os.walk as seen by the scanner yields dirs and
    files of every directory in every permutation.
(c) E-seq over analysis histories in one process: all sequences up to a length over a menu of
    files (all languages, malformed ones), scan_path and check; every step must equal the
    reference computed in a fresh subprocess; global mutable state is fingerprinted.
(d) supplementary, sampling: real PYTHONHASHSEED values in subprocesses.
"""
from __future__ import annotations

import hashlib
import itertools
import json
import os
import subprocess
import sys
from pathlib import Path

from mc import core, harness
from mc.gen import canon, malformed, oracle

ID = "C06"
LEVEL = "model_checking"
TECHNIQUE = "choice-point exploration: all predicate iteration orders (per set: full product; per call: deviation-bounded), all directory traversal orders, all analysis histories up to a length in one process vs fresh-process references"
LEVEL_TEXT = ("The two owned sources of nondeterminism are turned into explicit choice points answered by the explorer: the order in which the DFA "
              "construction sees a predicate set (every assignment of a permutation to each distinct set; and per call, every execution with <= k "
              "deviations) and the order in which os.walk lists directories and files (all permutations); plus all histories of <= n analyses in one "
              "process compared with fresh-process references; and, at the level of a single matcher step, every reachable configuration x token "
              "class x every permutation of the state's transitions. Every explored execution must give identical measurements / reports; "
              "every traversal order and every history runs in a forked child so that process-wide memos cannot mask a difference.")
LEVEL_NOTE = ("Not all 2^32 seeds are run: every iteration order any seed could induce at the one place where set order reaches behaviour is enumerated instead; "
              "a new order-sensitive place would only be seen by the supplementary real-seed differential (sampling, reported separately)."
              " Further families: walk orders of trees with NFC/NFD twins, mixed-language neighbours and symbolic links; the clock (all time-module clocks advanced 100 s per reading); real hash seeds over probes and non-canonical snippets (sampling, supplementary).")


# ---------------------------------------------------------------------------------------
# probe files
# ---------------------------------------------------------------------------------------

def probes(lang):
    out = []
    seeds = malformed.seeds(lang)
    for i in range(len(seeds)):
        out.append(malformed.seed_text(lang, i))
    good = malformed.seed_text(lang, 0)
    out.append(good[: len(good) * 2 // 3])
    out.append(good.replace(")", "", 1) + "((({{{\n")
    out.append("x = f((a, b) => {\n" if lang in ("JavaScript", "TypeScript") else "f(((\n")
    if lang in ("JavaScript", "TypeScript"):
        # '=>' inside a parameter list: the one place where two predicates of a state used to overlap
        out.append("const f = (a, b => c, d = e => e) => {\n  return 1;\n};\nfunction h(a) {\n  return a;\n}\n")
    return out


def measure(lang, text):
    try:
        return oracle.as_tuples(oracle.scan_text(lang, text))
    except Exception as e:  # noqa
        return "raised:" + type(e).__name__


# ---------------------------------------------------------------------------------------
# (a) predicate iteration order
# ---------------------------------------------------------------------------------------

def pred_key(p, depth=0):
    """address-free structural description of a predicate"""
    d = getattr(p, "__dict__", None)
    if d is None or depth > 5:
        return f"{type(p).__name__}:{p!s}" if d is None else type(p).__name__
    parts = []
    for k in sorted(d):
        v = d[k]
        parts.append(f"{k}={pred_key(v, depth + 1) if hasattr(v, 'accept') else v!r}")
    return f"{type(p).__name__}({', '.join(parts)})"


class OrderOracle:
    """replaces Expression.state_set_transitions; mode 'set': permutation per distinct set (assignment dict);
    mode 'call': permutation index per call number (plan dict), default order otherwise"""

    def __init__(self, mode, plan):
        self.mode, self.plan = mode, plan
        self.calls = []  # (key, size) of multi-element results
        self.hits = 0

    def __enter__(self):
        from codelimit.common.gsm import Expression

        self.mod = Expression
        self.real = Expression.state_set_transitions
        me = self

        def ordered(states):
            me.hits += 1
            res = list(me.real(states))
            res.sort(key=pred_key)
            if len(res) < 2:
                return res
            key = "|".join(pred_key(p) for p in res)
            idx = len(me.calls)
            me.calls.append((key, len(res)))
            perms = perm_menu(len(res))
            choice = me.plan.get(key, 0) if me.mode == "set" else me.plan.get(idx, 0)
            if choice >= len(perms):
                raise core.HarnessError(f"out-of-range choice {choice} for a set of {len(res)}")
            return [res[i] for i in perms[choice]]

        Expression.state_set_transitions = ordered
        return self

    def __exit__(self, *exc):
        self.mod.state_set_transitions = self.real
        return False


_MENUS = {}


def perm_menu(n):
    """the orders tried for a collection of n elements: all n! for n <= 4; for larger collections (none on the pinned tree) the
    identity, the reversal, every rotation and every adjacent transposition - so that a tree with a wide state still terminates"""
    if n not in _MENUS:
        if n <= 4:
            _MENUS[n] = list(itertools.permutations(range(n)))
        else:
            base = tuple(range(n))
            menu = [base, base[::-1]] + [base[i:] + base[:i] for i in range(1, n)]
            for i in range(n - 1):
                t = list(base)
                t[i], t[i + 1] = t[i + 1], t[i]
                menu.append(tuple(t))
            seen, out = set(), []
            for m in menu:
                if m not in seen:
                    seen.add(m)
                    out.append(m)
            _MENUS[n] = out
    return _MENUS[n]


def fact(n):
    return len(perm_menu(n))


def explore_orders(lang, text, k, agg):
    """returns list of violations; explores (a1) full product per distinct set and (a2) <= k deviations per call"""
    out = []
    with OrderOracle("set", {}) as oo:
        base = measure(lang, text)
    if oo.hits == 0:
        raise core.HarnessError("seam Expression.state_set_transitions never hit")
    sets = {}
    for key, size in oo.calls:
        sets[key] = size
    ncalls = len(oo.calls)
    keys = sorted(sets)
    # (a1) all assignments (when that product is astronomically large - never on the pinned tree - one set at a time instead)
    total = 1
    for kk in keys:
        total *= fact(sets[kk])
    if any(sets[kk] > 4 for kk in keys) or total > 20000:
        agg.extra["order_exploration_capped(wide state: reduced permutation menu)"] += 1
    if total > 20000:
        combos = [tuple(c if j == i else 0 for j in range(len(keys))) for i in range(len(keys)) for c in range(fact(sets[keys[i]]))]
    else:
        combos = itertools.product(*[range(fact(sets[kk])) for kk in keys])
    for combo in combos:
        plan = dict(zip(keys, combo))
        with OrderOracle("set", plan):
            got = measure(lang, text)
        agg.transitions += 1
        agg.state([lang, hashlib.md5(text.encode()).hexdigest(), "set", list(combo)])
        if got != base:
            out.append(("result-depends-on-set-iteration-order", {"language": lang, "mode": "per-set"}, {"plan": plan}, f"default {str(base)[:200]} vs {str(got)[:200]}"))
            break
    # (a2) per call, <= k deviations
    sizes = [s for _, s in oo.calls]
    for n in range(1, k + 1):
        for idxs in itertools.combinations(range(ncalls), n):
            for choice in itertools.product(*[range(1, fact(sizes[i])) for i in idxs]):
                plan = dict(zip(idxs, choice))
                with OrderOracle("call", plan) as o2:
                    got = measure(lang, text)
                agg.transitions += 1
                agg.state([lang, hashlib.md5(text.encode()).hexdigest(), "call", sorted(plan.items())])
                if got != base:
                    out.append(("result-depends-on-set-iteration-order", {"language": lang, "mode": "per-call"}, {"plan": {str(a): b for a, b in plan.items()}},
                                f"default {str(base)[:200]} vs {str(got)[:200]}"))
                    return out, base, ncalls, len(keys)
    return out, base, ncalls, len(keys)


def explore_consume_order(lang, agg):
    """(a3) for every expression the language really uses: every reachable (DFA state x predicate state) configuration x
    every token class x every permutation of that state's transition list -> Pattern.consume must do the same thing"""
    from codelimit.common.gsm.Expression import expression_to_nfa, nfa_to_dfa
    from mc.checks import c15

    out = []
    for idx, (role, expr) in enumerate(c15.capture()[lang]):
        dfa = c15.build_dfa(expr)
        order, preds = c15.dfa_index(dfa)
        classes = c15.token_classes(expr)
        p0, _, _ = c15.run_history(dfa, [])
        seen = {c15.canon(p0, order, preds): []}
        frontier = [[]]
        reported = False
        while frontier and not reported:
            nxt = []
            for hist in frontier:
                base, alive, _ = c15.run_history(dfa, hist)
                if not alive:
                    continue
                st = base.state
                original = list(st.transition)
                perms = list(itertools.permutations(range(len(original)))) if 1 < len(original) <= 4 else [tuple(range(len(original)))]
                for c in classes:
                    outcomes = []
                    for pi in perms:
                        st.transition[:] = [original[i] for i in pi]
                        try:
                            p, ok, amb = c15.run_history(dfa, hist + [c])
                            oc = ("ambiguous",) if amb is not None else (("dead",) if not ok else ("to", c15.canon(p, order, preds)))
                        except Exception as e:  # noqa
                            oc = ("raised", type(e).__name__)
                        finally:
                            st.transition[:] = original
                        outcomes.append(oc)
                        agg.transitions += 1
                    if len(set(outcomes)) > 1:
                        out.append(("result-depends-on-set-iteration-order", {"language": lang, "mode": "consume-level"},
                                    {"expr": idx, "history": hist + [c]}, f"{lang}[{idx}:{role}] after {hist}: token {c!r} gives {sorted(set(map(str, outcomes)))[:3]} depending on the order of the state's transitions"))
                        reported = True
                        break
                    oc = outcomes[0]
                    if oc[0] == "to" and oc[1] not in seen:
                        seen[oc[1]] = hist + [c]
                        nxt.append(hist + [c])
                if reported:
                    break
            frontier = nxt
        for k in seen:
            agg.state([lang, idx, "consume-order", repr(k)])
    return out


# ---------------------------------------------------------------------------------------
# (b) traversal order
# ---------------------------------------------------------------------------------------

WALK_TREE = {
    # root: 3 files (one of them a whole-name language, one extension-less non-source) and 3 folders
    "r.py": harness.py_function("alpha", 4), "BUILD": harness.py_function("build_rule", 4), "LICENSE": "def not_code():\n    x = 1\n",
    # the same basename in sibling folders; SConstruct is Python by its whole name
    "d0/i.c": "int i(void) {\n  return 1;\n}\n", "d0/a.py": harness.py_function("alpha_4", 5),
    "d1/e.py": harness.py_function("eps", 16), "d1/a.py": harness.py_function("alpha_again", 7), "d1/SConstruct": harness.py_function("scons", 3),
    "d2/g.ts": "function g(a: number) {\n  return a;\n}\n", "d2/a.py": harness.py_function("alpha_third", 2),
    "d2/d3/h.py": harness.py_function("eta", 61), "d2/d3/b.js": harness.js_function("beta", 31),
}
# two DIFFERENT file names that are equal after Unicode normalisation, with different content (own small tree: 3! x 2! orders)
NFC_TREE = {"caf\u00e9.py": harness.py_function("nfc_spelling", 6), "cafe\u0301.py": harness.py_function("nfd_spelling", 9), "z.py": harness.py_function("z", 2),
            "s/caf\u00e9.js": harness.js_function("nfcJs", 4), "s/cafe\u0301.js": harness.js_function("nfdJs", 5)}


# languages that share bytes or depend on their neighbours: a header next to C and C++ sources (its content is measured differently
# by the two languages: only C++ reports the macro-loop body as a nested unit) and byte-identical twins under two languages
_LIST_H = ("int list_sum(struct list *head)\n{\n    int s = 0;\n    list_for_each(pos, head) {\n        s += pos->v;\n        s += 1;\n    }\n"
           "    return s;\n}\n")
_TYPED = "function area(w: number): number {\n  return w;\n}\nfunction plain(w) {\n  return w;\n}\n"
MIX_TREE = {"inc/list.h": _LIST_H, "src/m.cpp": "int m(int a) {\n  return a;\n}\n", "src/n.c": "int n(int a) {\n  return a;\n}\n",
            "twin/pick.js": _TYPED, "twin/pick.ts": _TYPED, "abi/check.c": _LIST_H, "abi/check.cpp": _LIST_H}
# a directory that is ALSO reachable through a symbolic link (workspace / monorepo layouts), and a file symlink next to its target
LINK_TREE = {"packages/shared/util.py": harness.py_function("shared_util", 5), "packages/shared/more.js": harness.js_function("more", 4),
             "workspace/shared": ("symlink", "../packages/shared"), "workspace/own.py": harness.py_function("own", 3),
             "app/main.py": harness.py_function("main", 6), "app/alias.py": ("symlink", "main.py"),
             # a .gitignore BELOW the root with a slash-less pattern that also names a file in a sibling folder
             "app/.gitignore": "own.py\nutil.py\n"}
WALK_TREES = {"main": WALK_TREE, "nfc": NFC_TREE, "mix": MIX_TREE, "links": LINK_TREE}


class WalkOracle:
    """choice points are keyed by (directory, 'dirs'|'files'); plan maps key -> permutation index"""

    def __init__(self, plan, base):
        self.plan = plan
        self.base = str(base)
        self.points = {}

    def __enter__(self):
        self.real = os.walk
        me = self

        def walk(top, *a, **kw):
            top = str(top)
            names = sorted(os.listdir(top))
            dirs = [n for n in names if os.path.isdir(os.path.join(top, n))]
            files = [n for n in names if not os.path.isdir(os.path.join(top, n))]
            for what, lst in (("dirs", dirs), ("files", files)):
                perms = list(itertools.permutations(lst))
                key = os.path.relpath(top, me.base) + ":" + what
                me.points[key] = len(perms)
                c = me.plan.get(key, 0)
                if c >= len(perms):
                    raise core.HarnessError("out-of-range walk choice")
                lst[:] = list(perms[c])
            yield top, dirs, files
            follow = kw.get("followlinks", a[2] if len(a) > 2 else False)
            for d in list(dirs):
                if not follow and os.path.islink(os.path.join(top, d)):
                    continue  # like os.walk: a symbolic link to a directory is listed but not entered unless followlinks is set
                yield from walk(os.path.join(top, d), followlinks=follow)

        os.walk = walk
        return self

    def __exit__(self, *exc):
        os.walk = self.real
        return False


def report_of(root: Path):
    from codelimit.common.report.Report import Report
    from codelimit.common.report.ReportWriter import ReportWriter
    from codelimit.common.Scanner import scan_path

    harness.reset_globals()
    cb = scan_path(root)
    cb.aggregate()
    doc = json.loads(ReportWriter(Report(cb)).to_json())
    doc.pop("uuid"), doc.pop("timestamp")
    files_order = list(doc["codebase"]["files"])
    for v in doc["codebase"]["tree"].values():
        v["entries"] = sorted(v["entries"])
    return doc, files_order


def _walk_once(root, plan):
    with WalkOracle(plan, root) as w:
        doc, order = report_of(Path(root))
    return doc, order, w.points


def explore_walk(tree, agg, shard=0, nshards=1):
    out = []
    with harness.temp_tree(tree) as root:
        base, order0, pts = isolated(_walk_once, str(root), {})

        class _W0:
            points = pts
        w0 = _W0
        if not w0.points:
            raise core.HarnessError("seam os.walk never hit")
        keys = sorted(k for k, n in w0.points.items() if n > 1)
        orders = set()
        for ci, combo in enumerate(itertools.product(*[range(w0.points[k]) for k in keys])):
            if ci % nshards != shard:
                continue
            plan = dict(zip(keys, combo))
            # every order starts from the same process state (a process-wide memo filled by an earlier scan would otherwise
            # make all orders look alike): run it in a forked child
            doc, order, points = isolated(_walk_once, str(root), plan)
            agg.transitions += 1
            agg.state(["walk", list(combo)])
            orders.add(tuple(order))
            if points != w0.points and doc == base:
                # the set of directories visited depends on the listing order although the result does not: not this property's business
                agg.extra["walks_visiting_other_directories_with_equal_result"] += 1
            if doc != base:
                out.append(("report-depends-on-traversal-order", {}, {"plan": plan}, f"files listed {order} vs {order0}"))
                break
        return out, len(orders)


# ---------------------------------------------------------------------------------------
# (c) histories in one process
# ---------------------------------------------------------------------------------------

def pool():
    items = []
    for lang in canon.LANGS:
        items.append((lang, malformed.seed_text(lang, 5 if len(malformed.seeds(lang)) > 5 else 0)))
    # pairs that collide on every cheap key (same length, token count, first line, function name) but differ in structure
    items.append(("Python", "def f(a):\n    x = 1\n    y = 2\n"))
    items.append(("Python", "def f(a):\n    x = 1\ny = 2    \n"))
    items.append(("JavaScript", "function f(a) {\n  g(a);\n  h(a);\n}\n"))
    items.append(("JavaScript", "function f(a) {\n  g(a);\n}\n  h(a);\n"))
    items.append(("Python", "def f(a,\n    b = (1,\n"))
    items.append(("JavaScript", "const f = (a, (b = () => {\n  x(\n"))
    items.append(("Java", "class A { void m( { new B() { void n(int a { } } }\n"))
    return items


def global_fingerprint():
    from codelimit.common.Configuration import Configuration
    from codelimit.languages import Languages
    import logging

    def snap(o, depth=0):
        if depth > 6:
            return "..."
        if isinstance(o, (int, str, bool, type(None), float)):
            return o
        if isinstance(o, (list, tuple)):
            return [snap(x, depth + 1) for x in o]
        d = getattr(o, "__dict__", None)
        if d is None:
            return type(o).__name__
        return {k: snap(v, depth + 1) for k, v in sorted(d.items())}

    langs = {n: snap(l) for n, l in sorted(Languages.by_name.items())}
    return core.digest([langs, Configuration.exclude, Configuration.verbose, str(Configuration.repository), len(logging.getLogger().handlers)])


ENC_TREES = {
    # a file that is not valid UTF-8 (read through the Latin-1 fallback) ...
    "latin": {"l.py": ("# caf\xe9\n" + harness.py_function("caf\xe9_latin", 4)).encode("latin-1")},
    # ... and a UTF-8 file whose function NAME is not ASCII: reading it with another decoding changes the result
    "utf8": {"u.py": "# caf\u00e9 \u65e5\u672c\n" + harness.py_function("caf\u00e9_utf8", 5), "v.js": harness.js_function("gr\u00f6\u00dfe", 4)},
}


EXCL_TREE = {
    # a root whose .gitignore and content match paths of the OTHER trees (patterns must not outlive this scan)
    ".gitignore": "d1/\n*.ts\nr.py\nu.py\n", "d1/x.py": harness.py_function("x", 3), "keep.py": harness.py_function("keep", 3), "g.ts": "function g() {\n  return 1;\n}\n",
}


def scan_tree(files):
    from codelimit.common.Scanner import scan_path

    with harness.temp_tree(files) as root:
        harness.reset_globals()
        cb = scan_path(root)
        return sorted((k, e.language, oracle.as_tuples(e.measurements())) for k, e in cb.files.items())


def step_result(item_idx, tmp: Path):
    """execute menu item; returns comparable result"""
    from codelimit.commands.check import check_command
    from codelimit.common.Scanner import scan_path

    p = pool()
    if item_idx < len(p):
        lang, text = p[item_idx]
        return measure(lang, text)
    kind = item_idx - len(p)
    if kind == 4:
        return scan_tree(EXCL_TREE)
    if kind == 2:
        return scan_tree(ENC_TREES["latin"])
    if kind == 3:
        return scan_tree(ENC_TREES["utf8"])
    if kind == 0:
        cb = scan_path(tmp)
        return sorted((k, oracle.as_tuples(e.measurements())) for k, e in cb.files.items())
    with harness.cwd(tmp):
        code, out, exc = harness.run_cli_function(check_command, [Path("b.js")], False, _reset=False)
    return [code, out.replace(str(tmp), "<tmp>"), type(exc).__name__ if exc else None]


def menu_size():
    return len(pool()) + 5


def run_history(seq):
    """in THIS process: returns list of step results + fingerprints"""
    with harness.temp_tree(WALK_TREE) as tmp:
        res = []
        for i in seq:
            res.append([step_result(i, tmp), global_fingerprint()])
        return res


def reference_results():
    """each menu item alone, in a fresh subprocess"""
    out = {}
    code = ("import sys, json; sys.path.insert(0, %r); sys.path.insert(0, %r)\n"
            "from mc.checks import c06\n"
            "print(json.dumps(c06.run_history([int(sys.argv[1])])[0][0]))\n") % (str(core.REPO), str(core.VERIF))
    env = dict(os.environ)
    from concurrent.futures import ThreadPoolExecutor

    def one(i):
        r = subprocess.run([sys.executable, "-c", code, str(i)], capture_output=True, text=True, env=env, timeout=300)
        if r.returncode != 0:
            raise core.HarnessError(f"reference subprocess failed for item {i}: {r.stderr[-400:]}")
        return i, json.loads(r.stdout.strip().splitlines()[-1])

    with ThreadPoolExecutor(8) as ex:
        for i, v in ex.map(one, range(menu_size())):
            out[i] = v
    return out


def isolated(fn, *args):
    """run fn(*args) in a forked child, return its JSON result (so histories start from the same process state)"""
    r, w = os.pipe()
    pid = os.fork()
    if pid == 0:
        try:
            os.close(r)
            try:
                data = json.dumps({"ok": fn(*args)})
            except BaseException as e:  # noqa
                data = json.dumps({"err": repr(e)})
            with os.fdopen(w, "w") as f:
                f.write(data)
        finally:
            os._exit(0)
    os.close(w)
    with os.fdopen(r) as f:
        data = f.read()
    os.waitpid(pid, 0)
    d = json.loads(data)
    if "err" in d:
        raise core.HarnessError(f"history child failed: {d['err']}")
    return d["ok"]


def eval_history(seq, refs):
    out = []
    res = isolated(run_history, seq)
    norm = lambda x: json.loads(json.dumps(x))
    for pos, (i, (got, fp)) in enumerate(zip(seq, res)):
        if norm(got) != norm(refs[str(i)] if str(i) in refs else refs[i]):
            out.append(("result-depends-on-previously-analysed-files", {"item": "file" if i < len(pool()) else ["scan", "check", "scan-latin1-tree", "scan-utf8-tree", "scan-tree-with-gitignore"][i - len(pool())]},
                        f"step {pos} (item {i}) after {seq[:pos]}: {str(got)[:200]} vs fresh-process {str(refs.get(i, refs.get(str(i))))[:200]}"))
            break
    fps = [fp for _, fp in res]
    return out, fps


# ---------------------------------------------------------------------------------------
# (d) supplementary real-seed differential
# ---------------------------------------------------------------------------------------

NEG_TREE = {
    ".gitignore": "generated/*\n!generated/keep.py\n!dist\n*.js\n!src/keep.js\nbuild\n!build/x.py\n",
    "generated/keep.py": harness.py_function("keep", 3), "generated/drop.py": harness.py_function("drop", 3),
    "dist/d.py": harness.py_function("dist_fn", 3), "src/keep.js": harness.js_function("keepJs", 3), "src/drop.js": harness.js_function("dropJs", 3),
    "build/x.py": harness.py_function("bx", 3), "a.py": harness.py_function("a", 3),
}


def corpus_digest(order):
    items = [("scan-with-negated-exclusions", "", scan_tree(NEG_TREE))]
    for lang in (canon.LANGS if order == 0 else list(reversed(canon.LANGS))):
        for t in probes(lang):
            items.append((lang, hashlib.md5(t.encode()).hexdigest(), measure(lang, t)))
        # non-canonical constructs too (modifiers after the parameter list, generics, decorators ...): a language definition
        # that builds its pattern from a set shows only on inputs that use two or more members of that set
        from mc.gen import wild
        for _name, t in wild.snippets(lang):
            items.append((lang, hashlib.md5(t.encode()).hexdigest(), measure(lang, t)))
    return core.digest(sorted(items, key=lambda x: (x[0], x[1])))


def one_digest(hs, order):
    code = ("import sys; sys.path.insert(0, %r); sys.path.insert(0, %r)\n"
            "from mc.checks import c06\nprint(c06.corpus_digest(int(sys.argv[1])))\n") % (str(core.REPO), str(core.VERIF))
    env = dict(os.environ, PYTHONHASHSEED=hs)
    r = subprocess.run([sys.executable, "-c", code, str(order)], capture_output=True, text=True, env=env, timeout=300)
    if r.returncode != 0:
        raise core.HarnessError(f"digest subprocess failed: {r.stderr[-300:]}")
    return r.stdout.strip().splitlines()[-1]


def hash_seeds(seed):
    return ["0", "1", "2", "3", "4", "5", "6", "7", str(1000 + seed % 1000), "random"]


def seed_differential(seed):
    code = ("import sys; sys.path.insert(0, %r); sys.path.insert(0, %r)\n"
            "from mc.checks import c06\nprint(c06.corpus_digest(int(sys.argv[1])))\n") % (str(core.REPO), str(core.VERIF))
    results = {}
    for hs in ["0", "1", "2", "3", str(1000 + seed % 1000), "random"]:
        for order in (0, 1):
            env = dict(os.environ, PYTHONHASHSEED=hs)
            r = subprocess.run([sys.executable, "-c", code, str(order)], capture_output=True, text=True, env=env, timeout=300)
            if r.returncode != 0:
                raise core.HarnessError(f"digest subprocess failed: {r.stderr[-300:]}")
            results[f"{hs}/{order}"] = r.stdout.strip().splitlines()[-1]
    return results


# ---------------------------------------------------------------------------------------
# (e) the clock: a result must not depend on how much time passes while a file is analysed
# ---------------------------------------------------------------------------------------

class FastClock:
    """every clock of the time module (and every codelimit module global bound to one of them) advances 100 s per reading"""
    NAMES = ["time", "monotonic", "perf_counter", "process_time", "time_ns", "monotonic_ns", "perf_counter_ns", "process_time_ns"]

    def __enter__(self):
        import time as _time

        self.saved, self.now, self.readings = [], [2.0e9], 0
        me = self

        def mk(ns):
            def clock():
                me.now[0] += 100.0
                me.readings += 1
                return int(me.now[0] * 1e9) if ns else me.now[0]
            return clock
        fake = {getattr(_time, n): mk(n.endswith("_ns")) for n in self.NAMES if hasattr(_time, n)}
        for n in self.NAMES:
            if hasattr(_time, n):
                self.saved.append((_time, n, getattr(_time, n)))
                setattr(_time, n, fake[getattr(_time, n)])
        for mname, mod in list(sys.modules.items()):
            if mod is not None and (mname == "codelimit" or mname.startswith("codelimit.")):
                for k, v in list(vars(mod).items()):
                    try:
                        hit = v in fake
                    except TypeError:
                        continue
                    if hit:
                        self.saved.append((mod, k, v))
                        setattr(mod, k, fake[v])
        return self

    def __exit__(self, *exc):
        for obj, k, v in reversed(self.saved):
            setattr(obj, k, v)
        return False


def clock_texts(lang, nfiles):
    from mc.gen import malformed

    out = [(f"corpus:{n}", malformed.corpus_text(lang, n)) for n in malformed.corpus_files(lang)[:nfiles]]
    # a generated file of several thousand tokens (budgets are usually checked every N tokens)
    unit = harness.py_function("f{}", 6) if lang == "Python" else None
    if lang == "Python":
        out.append(("generated-long", "\n".join(harness.py_function(f"f{i}", 6) for i in range(150))))
    elif lang in ("JavaScript", "TypeScript"):
        out.append(("generated-long", "\n".join(harness.js_function(f"f{i}", 6) for i in range(150))))
    else:
        body = "".join(f"int f{i}(int a)\n{{\n    a = a + {i};\n    return a;\n}}\n\n" for i in range(150))
        out.append(("generated-long", body if lang in ("C", "C++") else "class K {\n" + body + "}\n"))
    return out


def eval_clock(lang, nfiles):
    out, n = [], 0
    for name, text in clock_texts(lang, nfiles):
        base = measure(lang, text)
        with FastClock() as fc:
            got = measure(lang, text)
        n += 1
        if got != base:
            out.append(("result-depends-on-the-clock", {"language": lang}, {"file": name},
                        f"{lang} {name}: {len(base) if isinstance(base, list) else base} functions normally, {len(got) if isinstance(got, list) else got} when every clock reading "
                        f"is 100 s later than the previous one ({fc.readings} readings)"))
    return n, out


def _block(block, agg):
    kind = block[0]
    if kind == "clock":
        _, lang, nfiles = block
        n, viol = eval_clock(lang, nfiles)
        case = {"part": "clock", "language": lang, "files": nfiles}
        agg.case(case, True, f"{n} files under a fast clock", sample=False)
        agg.transitions += 2 * n
        for kd, sig, extra, d in viol:
            agg.violation(kd, sig, dict(case, **extra), d)
        return
    if kind == "order":
        _, lang, pi, k = block
        text = probes(lang)[pi]
        viol, base, ncalls, nsets = explore_orders(lang, text, k, agg)
        case = {"part": "order", "language": lang, "probe": pi}
        agg.case(case, ncalls > 0, f"{nsets} sets/{ncalls} calls", sample=pi == 0)
        agg.extra["order_choice_points"] += ncalls
        for kd, sig, extra, d in viol:
            agg.violation(kd, sig, dict(case, **extra), d)
    elif kind == "consume":
        _, lang = block
        viol = explore_consume_order(lang, agg)
        case = {"part": "consume-order", "language": lang}
        agg.case(case, True, "consume-order ok" if not viol else "consume-order differs", sample=False)
        for kd, sig, extra, d in viol:
            agg.violation(kd, sig, dict(case, **extra), d)
    elif kind == "walk":
        tname = block[3] if len(block) > 3 else ("nfc" if block[2] == 0 else "main")
        viol, n_orders = explore_walk(WALK_TREES[tname], agg, block[1], max(1, block[2]))
        case = {"part": "walk", "shard": block[1], "of": block[2], "tree": tname}
        agg.case(case, True, f"{n_orders} distinct listing orders", sample=True)
        for kd, sig, extra, d in viol:
            agg.violation(kd, sig, dict(case, **extra), d)
    elif kind == "hist":
        _, seqs, refs = block
        fps = set()
        for seq in seqs:
            viol, f = eval_history(list(seq), refs)
            fps.update(f)
            case = {"part": "history", "seq": list(seq)}
            agg.case(case, len(seq) >= 2, "ok" if not viol else viol[0][0], sample=len(seq) == 3)
            agg.transitions += len(seq)
            for kd, sig, d in viol:
                agg.violation(kd, sig, case, d)
        for f in fps:
            agg.state(["global", f])
    elif kind == "seed1":
        _, hs, order = block
        agg.extra[f"digest:{one_digest(hs, order)}"] += 1
        agg.extra["supplementary_seed_runs(sampling)"] += 1
        agg.case({"part": "seed-run", "hashseed": hs, "order": order}, True, "seed-run", sample=False)
    else:
        _, seed = block
        res = seed_differential(seed)
        case = {"part": "seeds", "seed": seed}
        agg.case(case, True, f"{len(set(res.values()))} distinct digests over {len(res)} runs", sample=False)
        agg.extra["supplementary_seed_runs(sampling)"] += len(res)
        if len(set(res.values())) != 1:
            agg.violation("result-depends-on-hash-seed-or-file-order", {"mode": "real-seed"}, case, json.dumps(res))


def replay(case):
    agg = core.Agg()
    if case["part"] == "order":
        text = probes(case["language"])[case["probe"]]
        with OrderOracle("set", {}):
            base = measure(case["language"], text)
        plan = case.get("plan", {})
        mode = "set" if plan and not all(str(k).isdigit() for k in plan) else "call"
        p2 = plan if mode == "set" else {int(k): v for k, v in plan.items()}
        with OrderOracle(mode, p2):
            got = measure(case["language"], text)
        if got != base:
            return [{"kind": "result-depends-on-set-iteration-order", "sig": {"language": case["language"], "mode": "per-set" if mode == "set" else "per-call"}, "detail": ""}]
        return []
    if case["part"] == "consume-order":
        viol = explore_consume_order(case["language"], agg)
        return [{"kind": k, "sig": s, "detail": d} for k, s, _, d in viol]
    if case["part"] == "walk":
        tname = case.get("tree") or ("nfc" if case.get("of") == 0 else "main")
        viol, _ = explore_walk(WALK_TREES[tname], agg, case.get("shard", 0), max(1, case.get("of", 1)))
        return [{"kind": k, "sig": s, "detail": d} for k, s, _, d in viol]
    if case["part"] == "clock":
        _, viol = eval_clock(case["language"], case["files"])
        return [{"kind": k, "sig": s, "detail": d} for k, s, _, d in viol]
    if case["part"] == "history":
        viol, _ = eval_history(case["seq"], reference_results())
        return [{"kind": k, "sig": s, "detail": d} for k, s, d in viol]
    res = seed_differential(case["seed"])
    return [{"kind": "result-depends-on-hash-seed-or-file-order", "sig": {"mode": "real-seed"}, "detail": json.dumps(res)}] if len(set(res.values())) != 1 else []


def run(ctx: core.Ctx):
    k = ctx.pick(1, 2)
    hist_len = ctx.pick(2, 3)
    ctx.bounds = {"per_call_deviation_bound": k, "history_max_length": hist_len, "history_menu": menu_size(), "walk_tree": sorted(WALK_TREE), "walk_tree_mixed_languages": sorted(MIX_TREE),
                  "probes_per_language": len(probes("Python")),
                  "clock": "every corpus file (2 / 8 per language) and one generated 150-function file analysed once normally and once with all time-module clocks advancing 100 s per reading"}
    ctx.rule = ("states = distinct explored choice assignments (predicate-order plans, walk plans) + distinct global-state fingerprints seen in histories; "
                "transitions = real executions (one analysis / scan / history step each). case = (language, probe file) for orders, the tree for walks, a "
                "sequence of menu items for histories. (d) is sampling and reported in counters only.")
    ctx.assumptions = ["set iteration order reaches behaviour only through Expression.state_set_transitions (seam asserted to fire)"]
    blocks = []
    for lang in canon.LANGS:
        for pi in range(len(probes(lang))):
            blocks.append(("order", lang, pi, k))
    for lang in canon.LANGS:
        blocks.append(("consume", lang))
    for sh in range(12):
        blocks.append(("walk", sh, 12))
    blocks.append(("walk", 0, 0))  # the NFC/NFD tree, all orders
    for sh in range(2):
        blocks.append(("walk", sh, 2, "links"))  # a directory reachable directly and through a symbolic link, all orders
    for sh in range(4):
        blocks.append(("walk", sh, 4, "mix"))  # header + C + C++ and byte-identical twins under two languages, all orders
    for lang in canon.LANGS:
        blocks.append(("clock", lang, ctx.pick(2, 8)))
    refs = reference_results()
    seqs = []
    for n in range(1, hist_len + 1):
        seqs += list(itertools.product(range(menu_size()), repeat=n))
    step = max(1, len(seqs) // (ctx.workers * 3) + 1)
    for i in range(0, len(seqs), step):
        blocks.append(("hist", seqs[i:i + step], refs))
    for hs in hash_seeds(ctx.seed):
        for order in (0, 1):
            blocks.append(("seed1", hs, order))
    ctx.run_blocks(_block, blocks)
    digests = [k for k in ctx.agg.extra if k.startswith("digest:")]
    if len(digests) != 1:
        ctx.agg.violation("result-depends-on-hash-seed-or-file-order", {"mode": "real-seed"}, {"part": "seeds", "seed": ctx.seed},
                          f"{len(digests)} distinct corpus digests over PYTHONHASHSEED in {hash_seeds(ctx.seed)} x 2 file orders")
