"""C03 - analysis is total: no file content makes scan or check fail or hang.

E-prod over malformed inputs (all lexeme soups <= n, every single damage of canonical seeds,
byte faults at every position, deep nesting) x the ways of reaching the analysis (scan_file
directly, scan_command on a tree, check_command on a directory and on files) and over the ways
of naming a file for check (relative, absolute, via directory, outside the working directory;
in-process and as `python -m codelimit` subprocesses).
"""
from __future__ import annotations

import os
import subprocess
import sys
import traceback
import itertools
from pathlib import Path

from mc import core, harness
from mc.gen import canon, malformed, oracle

ID = "C03"
LEVEL = "exploration"
TECHNIQUE = "bounded-exhaustive enumeration of malformed file contents and of ways of naming the file, executed on the real scan/check code paths with a no-exception / termination oracle"
LEVEL_TEXT = ("All lexeme soups up to the bound, every single damage of ~11 seeds per language, every single-byte fault (5 hostile bytes at every "
              "position) plus BOM/CRLF/CR variants, deep nesting beyond the interpreter's recursion limit, and the full matrix content x way "
              "of naming x entry point are executed; any exception other than typer.Exit(0|1), any traceback or non-0/1 status of the CLI, "
              "or exceeding the watchdog is a violation. Exhaustive within the bounds.")
LEVEL_NOTE = "Watchdog: 60 s per in-process analysis of inputs < 4 KB (> 1000x the measured cost); deep-nesting inputs get 300 s. Bounds in evidence.bounds."

HOSTILE_BYTES = [0x00, 0x0D, 0x80, 0xE9, 0xFF]


def where(exc):
    tb = traceback.extract_tb(exc.__traceback__)
    for fr in reversed(tb):
        if "/codelimit/" in fr.filename:
            return f"{Path(fr.filename).name}:{fr.name}"
    return "?"


def try_scan_text(lang, text, limit=20):
    try:
        with core.time_limit(limit):
            ms = oracle.scan_text(lang, text)
        return len(ms), None
    except core.Timeout:
        return None, ("analysis-hangs", {"language": lang, "entry": "scan_file"}, f"no result after {limit}s")
    except RecursionError as e:
        return None, ("analysis-raises", {"language": lang, "entry": "scan_file", "error": "RecursionError", "where": where(e)}, "")
    except Exception as e:  # noqa
        return None, ("analysis-raises", {"language": lang, "entry": "scan_file", "error": type(e).__name__, "where": where(e)},
                      "".join(traceback.format_exception_only(type(e), e)).strip())


def _emit_text(agg, desc, limit=20):
    lang = desc["lang"]
    text = malformed.text_of(desc)
    if agg.extra["hangs_in_block"] >= 2:
        # two inputs of this block already hang: the violation is established; do not spend the watchdog on every further one
        agg.extra["cases_skipped_after_hangs"] += 1
        return
    n, v = try_scan_text(lang, text, limit)
    if v is not None and v[0] == "analysis-hangs":
        agg.extra["hangs_in_block"] += 1
    agg.case(desc, True, "ok" if v is None else v[0] + ":" + str(v[1].get("error")), sample=bool(n))
    if v:
        agg.violation(v[0], v[1], desc, v[2] + "\n" + text[:600])


# ---------------------------------------------------------------------------------------
# through real files: scan_command / check_command
# ---------------------------------------------------------------------------------------

def run_tree(lang, contents: list[bytes], entry):
    """contents -> files f<i>.<ext> in a temp tree; run one entry point over the whole tree.
    returns (ok, exception or None, exit code)"""
    from codelimit.commands.check import check_command
    from codelimit.commands.scan import scan_command

    ext = canon.EXT[lang]
    files = {f"f{i:04d}.{ext}": c for i, c in enumerate(contents)}
    with harness.temp_tree(files) as root, harness.cwd(root):
        if entry == "scan":
            code, out, exc = harness.run_cli_function(scan_command, Path("."))
            if exc is None and code in (None, 0):
                rp = root / ".codelimit_cache" / "codelimit.json"
                if not rp.exists():
                    return False, RuntimeError("scan wrote no report"), code
                import json

                doc = json.loads(rp.read_text())
                if len(doc["codebase"]["files"]) != len(files):
                    return False, RuntimeError(f"report lists {len(doc['codebase']['files'])} of {len(files)} files"), code
                return True, None, code
            return False, exc, code
        if entry == "check-dir":
            code, out, exc = harness.run_cli_function(check_command, [Path(".")], False)
        else:
            code, out, exc = harness.run_cli_function(check_command, [Path(n) for n in files], True)
        return (exc is None and code in (0, 1)), exc, code


def bisect_tree(lang, contents, entry, agg, descs):
    """run a batch; on failure find the culprit(s) by bisection"""
    ok, exc, code = run_tree(lang, contents, entry)
    agg.transitions += len(contents)
    if ok:
        return
    if len(contents) == 1:
        sig = {"language": lang, "entry": entry, "error": type(exc).__name__ if exc else f"exit-{code}"}
        if exc is not None:
            sig["where"] = where(exc)
        agg.violation("analysis-raises" if exc else "bad-exit-status", sig, dict(descs[0], entry=entry), repr(exc))
        return
    mid = len(contents) // 2
    bisect_tree(lang, contents[:mid], entry, agg, descs[:mid])
    bisect_tree(lang, contents[mid:], entry, agg, descs[mid:])


def byte_variants(lang, seed, stride):
    base = malformed.seed_text(lang, seed).encode("utf-8")
    out = []
    for pos in range(0, len(base), stride):
        for b in HOSTILE_BYTES:
            out.append(({"fam": "byte", "lang": lang, "seed": seed, "pos": pos, "byte": b}, base[:pos] + bytes([b]) + base[pos + 1:]))
    out.append(({"fam": "byte", "lang": lang, "seed": seed, "variant": "bom"}, b"\xef\xbb\xbf" + base))
    out.append(({"fam": "byte", "lang": lang, "seed": seed, "variant": "crlf"}, base.replace(b"\n", b"\r\n")))
    out.append(({"fam": "byte", "lang": lang, "seed": seed, "variant": "cr"}, base.replace(b"\n", b"\r")))
    out.append(({"fam": "byte", "lang": lang, "seed": seed, "variant": "latin1"}, base.replace(b"x", b"\xe9")))
    out.append(({"fam": "byte", "lang": lang, "seed": seed, "variant": "empty"}, b""))
    out.append(({"fam": "byte", "lang": lang, "seed": seed, "variant": "utf16"}, malformed.seed_text(lang, seed).encode("utf-16")))
    return out


def bytes_of(desc):
    if desc["fam"] == "byte":
        for d, c in byte_variants(desc["lang"], desc["seed"], 1):
            if d == {k: v for k, v in desc.items() if k != "entry"}:
                return c
        raise core.HarnessError(f"unknown byte variant {desc}")
    return malformed.text_of(desc).encode("utf-8")


# ---------------------------------------------------------------------------------------
# naming matrix
# ---------------------------------------------------------------------------------------

NAMING_CONTENTS = ["wellformed", "long", "truncated", "unbalanced", "latin1", "empty"]
WAYS = ["rel-file", "abs-file", "parent-dir", "root-dir", "abs-dir", "dir-outside-cwd", "file-outside-cwd", "dotdot-file"]


def naming_content(lang, which) -> bytes:
    good = malformed.seed_text(lang, 0)
    if which == "wellformed":
        return good.encode()
    if which == "long":
        # several findings, two pairs of them with EQUAL lengths (listing code compares findings with each other)
        sizes = [("big", 62), ("mid", 31), ("mid_too", 31), ("big_too", 62)]
        if lang == "Python":
            fn = "\n".join(harness.py_function(n, L) for n, L in sizes)
        else:
            spec = {"lang": lang, "items": [{"k": "func", "name": n, "style": "same", "body": [{"k": "simple"}] * (L - 1)} for n, L in sizes]}
            fn = canon.render(spec)[0]
        return fn.encode()
    if which == "truncated":
        return good[: len(good) * 2 // 3].encode()
    if which == "unbalanced":
        return (good.replace(")", "", 1) + "((({{{\n").encode()
    if which == "latin1":
        return good.replace("x", "\xe9").encode("latin-1")
    return b""


def naming_case(lang, content, way, mode):
    """mode: 'inproc' | 'cli-check' | 'cli-scan'"""
    from codelimit.commands.check import check_command

    ext = canon.EXT[lang]
    data = naming_content(lang, content)
    with harness.temp_tree({f"proj/src/a.{ext}": data, "elsewhere/keep.txt": "x"}) as base:
        proj = base / "proj"
        file_abs = proj / "src" / f"a.{ext}"
        cwd, arg = {
            "rel-file": (proj, Path("src") / f"a.{ext}"),
            "abs-file": (proj, file_abs),
            "parent-dir": (proj, Path("src")),
            "root-dir": (proj, Path(".")),
            "abs-dir": (proj, proj / "src"),
            "dir-outside-cwd": (base / "elsewhere", proj / "src"),
            "file-outside-cwd": (base / "elsewhere", file_abs),
            "dotdot-file": (proj / "src", Path("..") / "src" / f"a.{ext}"),
        }[way]
        if mode == "inproc":
            with harness.cwd(cwd):
                code, out, exc = harness.run_cli_function(check_command, [arg], False)
            if exc is not None:
                return ("check-raises", {"mode": mode, "error": type(exc).__name__, "where": where(exc)}, f"{lang} {content} {way}: {exc!r}")
            if code not in (0, 1):
                return ("bad-exit-status", {"mode": mode, "status": str(code)}, f"{lang} {content} {way}: " + out[-300:])
            return None
        env = dict(os.environ, PYTHONPATH=str(core.REPO), HOME=str(base), NO_COLOR="1", COLUMNS="200")
        if mode == "cli-check":
            cmd = [sys.executable, "-m", "codelimit", "check", str(arg)]
            ok_status = (0, 1)
        else:
            target = arg if Path(cwd, arg).is_dir() else Path(arg).parent
            cmd = [sys.executable, "-m", "codelimit", "scan", str(target)]
            ok_status = (0,)
        try:
            r = subprocess.run(cmd, cwd=cwd, env=env, capture_output=True, text=True, timeout=120)
        except subprocess.TimeoutExpired:
            return ("cli-hangs", {"mode": mode}, f"{lang} {content} {way}: " + " ".join(cmd))
        if "Traceback" in r.stderr or "Traceback" in r.stdout or r.returncode not in ok_status:
            err = (r.stderr.strip().splitlines() or ["?"])[-1]
            return ("cli-fails", {"mode": mode, "error": err.split(":")[0][:40]}, f"{lang} {content} {way}: exit {r.returncode}: {err[:300]}")
        if mode == "cli-scan":
            target_abs = Path(cwd, target)
            if not (target_abs / ".codelimit_cache" / "codelimit.json").exists():
                return ("cli-fails", {"mode": mode, "error": "no-report"}, f"{lang} {content} {way}: scan wrote no report")
        return None


import contextlib
import tempfile


@contextlib.contextmanager
def _other_tmpdir(root, enabled):
    """the process's temp directory on ANOTHER file system than the scanned tree (TMPDIR on a tmpfs, the project on disk), when the
    machine has one: where temporary files go is part of the environment"""
    other = None
    if enabled:
        for cand in ("/dev/shm", "/run/user/%d" % os.getuid(), "/var/tmp"):
            try:
                if os.path.isdir(cand) and os.access(cand, os.W_OK) and os.stat(cand).st_dev != os.stat(root).st_dev:
                    other = cand
                    break
            except OSError:
                continue
    if other is None:
        yield
        return
    saved_env, saved_dir = os.environ.get("TMPDIR"), tempfile.tempdir
    os.environ["TMPDIR"] = other
    tempfile.tempdir = None
    try:
        yield
    finally:
        tempfile.tempdir = saved_dir
        if saved_env is None:
            os.environ.pop("TMPDIR", None)
        else:
            os.environ["TMPDIR"] = saved_env


def _block(block, agg):
    kind = block[0]
    if kind == "soup":
        for desc in malformed.soups_of_block(block[1]):
            _emit_text(agg, desc)
    elif kind == "damage":
        _, lang, seed, stride = block
        text = malformed.seed_text(lang, seed)
        descs = [{"fam": "seed", "lang": lang, "seed": seed}]
        for op, at in malformed.damage_ops(text):
            if op in ("prefix", "suffix") and at % stride:
                continue
            descs.append({"fam": "damage", "lang": lang, "seed": seed, "op": op, "at": at})
        for d in descs:
            _emit_text(agg, d)
        if agg.extra["hangs_in_block"]:
            return
        # the same inputs as real files through scan / check
        contents = [malformed.text_of(d).encode("utf-8") for d in descs]
        for k, entry in enumerate(("scan", "check-dir", "check-files")):
            # thorough: every input through every entry point; quick: every input through ONE of the three (rotating), the
            # entry-point x way-of-naming product being the naming matrix's job
            sel = list(range(len(contents))) if stride == 1 else [i for i in range(len(contents)) if i % 3 == k]
            for i in range(0, len(sel), 200):
                idx = sel[i:i + 200]
                bisect_tree(lang, [contents[j] for j in idx], entry, agg, [descs[j] for j in idx])
    elif kind == "descs":
        for desc in block[1]:
            _emit_text(agg, desc)
    elif kind == "bytes":
        _, lang, seed, stride = block
        vs = byte_variants(lang, seed, stride)
        for d, c in vs:
            agg.case(d, True, "bytes", sample=False)
        for entry in ("scan", "check-dir", "check-files"):
            for i in range(0, len(vs), 200):
                chunk = vs[i:i + 200]
                bisect_tree(lang, [c for _, c in chunk], entry, agg, [d for d, _ in chunk])
    elif kind == "deep":
        _, lang, shape, d = block
        desc = {"fam": "deep", "lang": lang, "shape": shape, "d": d}
        _emit_text(agg, desc, limit=300)
        if d <= 1200:
            bisect_tree(lang, [malformed.text_of(desc).encode()], "scan", agg, [desc])
    elif kind == "mixed":
        # trees of several languages whose files hold no, a damaged or a proper function, in every combination, through the scan command
        from codelimit.commands.scan import scan_command

        _, langs = block
        menu = ["empty", "truncated", "unbalanced", "wellformed"]
        for combo in itertools.product(menu, repeat=len(langs)):
            files = {f"d{i}/f{i}.{canon.EXT[l]}": naming_content(l, c) for i, (l, c) in enumerate(zip(langs, combo))}
            case = {"fam": "mixed", "langs": list(langs), "contents": list(combo)}
            with harness.temp_tree(files) as root, harness.cwd(root), _other_tmpdir(root, sum(len(c) for c in combo) % 2 == 0):
                code, text, exc = harness.run_cli_function(scan_command, Path("."))
                ok = exc is None and code in (None, 0) and (root / ".codelimit_cache" / "codelimit.json").is_file()
            agg.case(case, True, "ok" if ok else "fails", sample=False)
            agg.transitions += 1
            if not ok:
                agg.violation("scan-fails-on-a-tree-of-several-languages", {"error": type(exc).__name__ if exc else f"exit-{code}"}, case, repr(exc))
    elif kind == "naming":
        _, lang, content, way, mode = block
        case = {"fam": "naming", "lang": lang, "content": content, "way": way, "mode": mode}
        v = naming_case(lang, content, way, mode)
        agg.case(case, True, "ok" if v is None else v[0], sample=mode != "inproc")
        agg.transitions += 1
        if v:
            agg.violation(v[0], v[1], case, v[2])


def replay(case):
    fam = case.get("fam")
    if fam == "mixed":
        agg = core.Agg()
        _block(("mixed", tuple(case["langs"])), agg)
        return [r for lst in agg.violations.values() for _, r in lst][:3]
    if fam == "naming":
        v = naming_case(case["lang"], case["content"], case["way"], case["mode"])
        return [{"kind": v[0], "sig": v[1], "detail": v[2]}] if v else []
    if "entry" in case:
        agg = core.Agg()
        d = {k: v for k, v in case.items() if k != "entry"}
        bisect_tree(case["lang"], [bytes_of(d)], case["entry"], agg, [d])
        return [r for lst in agg.violations.values() for _, r in lst]
    if fam == "byte":
        return []
    n, v = try_scan_text(case["lang"], malformed.text_of(case), 300)
    return [{"kind": v[0], "sig": v[1], "detail": v[2]}] if v else []


def run(ctx: core.Ctx):
    n_full = ctx.pick(4, 5)
    n_trim = ctx.pick(5, 6)
    stride = ctx.pick(2, 1)
    bstride = ctx.pick(4, 1)
    depths = ctx.pick([10, 100, 1200], [10, 100, 1200, 3000])
    ctx.bounds = {"soup_max_lexemes_full_alphabet": n_full, "soup_max_lexemes_trimmed_alphabet(8)": n_trim, "alphabets": malformed.ALPHABET,
                  "damage_position_stride": stride, "byte_fault_position_stride": bstride, "hostile_bytes": HOSTILE_BYTES,
                  "deep_nesting_depths": depths, "deep_shapes": malformed.DEEP_SHAPES, "naming_contents": NAMING_CONTENTS, "naming_ways": WAYS}
    ctx.rule = ("case = one input: soups (all lexeme sequences), damage (every single damage of every seed; also as real files through scan_command, "
                "check on the directory and check on the file list, 200 per tree, bisected on failure), bytes (one hostile byte at each position, "
                "BOM/CRLF/CR/Latin-1/UTF-16/empty; files only), deep nesting, naming matrix (content x way x {in-process check, CLI check, CLI scan}). "
                "transitions = files pushed through an entry point. Every case is non-trivial (the oracle is totality).")
    blocks = []
    for lang in canon.LANGS:
        for n in range(1, n_full + 1):
            blocks += [("soup", b) for b in malformed.soup_blocks(lang, n, False)]
        for n in range(n_full + 1, n_trim + 1):
            blocks += [("soup", b) for b in malformed.soup_blocks(lang, n, True)]
        for s in range(len(malformed.seeds(lang))):
            blocks.append(("damage", lang, s, stride))
            if s < ctx.pick(3, 11):
                blocks.append(("bytes", lang, s, bstride))
        for shape in malformed.DEEP_SHAPES:
            for d in depths:
                blocks.append(("deep", lang, shape, d))
        extra = malformed.wild_descs(lang, stride) + malformed.corpus_descs(lang, ctx.pick(2, 8), ctx.pick(4, 1))
        for i in range(0, len(extra), 400):
            blocks.append(("descs", extra[i:i + 400]))
        cli_langs = canon.LANGS if not ctx.quick else ["Python", "JavaScript", "C"]
        for content in NAMING_CONTENTS:
            for way in WAYS:
                blocks.append(("naming", lang, content, way, "inproc"))
                if lang in cli_langs and (not ctx.quick or content in ("wellformed", "latin1", "truncated")):
                    blocks.append(("naming", lang, content, way, "cli-check"))
                    if way in ("root-dir", "abs-dir", "dir-outside-cwd", "parent-dir"):
                        blocks.append(("naming", lang, content, way, "cli-scan"))
    for langs in (("Python", "JavaScript"), ("C", "C++", "C#"), ("Java", "TypeScript", "Python")):
        blocks.append(("mixed", langs))
    ctx.run_blocks(_block, blocks)
