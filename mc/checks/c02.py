"""C02 - length thresholds and the refactoring alarm are applied consistently.

(a) every length L in 1..80 (+ a few large ones) is pushed through every re-implementation of
    the 15/30/60 thresholds and compared with R-cat;
(b) every ordered distribution of <= N functions with lengths from the boundary set over two
    real files (Python, JavaScript) is written to a temp tree; the real check_command runs
    in-process with cwd at the root for quiet x {directory, files}; stdout is parsed; the same
    tree is scanned with scan_path for the profile / counters.
"""
from __future__ import annotations

import itertools
import os
import re
from pathlib import Path

from mc import core, harness
from mc.harness import category

ID = "C02"
LEVEL = "exploration"
TECHNIQUE = "exhaustive enumeration of all lengths around the thresholds through every threshold site + all small multisets of boundary lengths through the real check command"
LEVEL_TEXT = ("Every length 1..80 is checked against the reference categories at each of the threshold re-implementations, and every "
              "ordered distribution of up to N boundary-length functions over two files is run through the real check command (exit status, "
              "listing, order, symbols, summary count, --quiet) and scan_path (profile, counters). Exhaustive within the bounds.")
LEVEL_NOTE = "Bounds: lengths 1..80 + {100, 999, 1000, 7000}; boundary set {2,15,16,30,31,60,61}; <= N functions, 2 files, 2 languages. Trusted: R-cat (4 lines). Invocations run under an 80-column terminal, through check_command and through the command-line entry point, on trees that alternately lie below a hidden directory and that also hold a non-UTF-8 file."

LENGTHS = list(range(1, 81)) + [100, 999, 1000, 7000]
BOUNDARY = [2, 15, 16, 30, 31, 60, 61]
COLORS = ["green", "yellow", "dark_orange", "red"]
SYMBOL = ["✓", "✓", "⚠", "✖"]


def _color(style):
    return style.color.name if style is not None and style.color is not None else None


def eval_length(L):
    from codelimit.common import utils as U
    from codelimit.common.CheckResult import CheckResult
    from codelimit.common.LanguageTotals import LanguageTotals
    from codelimit.common.GithubRepository import GithubRepository
    from codelimit.common.report import format_markdown, format_text
    from codelimit.common.report.Report import Report

    out = []
    cat = category(L)
    m = harness.measurement("fn", L, 3, 5)

    def expect(site, got, want):
        if got != want:
            out.append(("threshold-site-disagrees", {"site": site}, f"L={L}: {site} gives {got!r}, reference {want!r}"))

    onehot_loc = [L if i == cat else 0 for i in range(4)]
    onehot_cnt = [1 if i == cat else 0 for i in range(4)]
    expect("make_profile", U.make_profile([m]), onehot_loc)
    expect("make_count_profile", U.make_count_profile([m]), onehot_cnt)
    entry = harness.file_entry("a.py", "Python", [L])
    expect("SourceFileEntry.profile", entry.profile(), onehot_loc)
    lt = LanguageTotals("Python")
    lt.add(entry)
    expect("LanguageTotals.add", (lt.files, lt.loc, lt.functions, lt.hard_to_maintain, lt.unmaintainable),
           (1, L, 1, int(cat == 2), int(cat == 3)))
    cr = CheckResult()
    cr.add(Path("a.py"), [m])
    expect("CheckResult.add", (cr.hard_to_maintain, cr.unmaintainable), (int(cat == 2), int(cat == 3)))
    expect("get_style_for_measurement", _color(U.get_style_for_measurement(L)), COLORS[cat])
    expect("get_emoji_for_measurement", U.get_emoji_for_measurement(L), SYMBOL[cat])
    fu = U.format_unit("fn", L, "a.py")
    sep = [s for s in fu.spans if fu.plain[s.start:s.end] == " | "]
    expect("format_unit.colour", _color(sep[0].style) if sep else None, COLORS[cat])
    expect("format_unit.text", fu.plain.replace(" ", ""), f"{L}|a.py:fn")
    fm = U.format_measurement("a.py", m)
    expect("format_measurement.text", fm.plain, f"a.py:3:5: {L} {SYMBOL[cat]} fn")
    num = [s for s in fm.spans if fm.plain[s.start:s.end] == str(L)]
    expect("format_measurement.colour", sorted({_color(s.style) for s in num if _color(s.style)}), [COLORS[cat]])
    cb = harness.codebase([("a.py", "Python", [L])])
    cb.aggregate()
    rep = Report(cb)
    expect("Report.quality_profile", rep.quality_profile(), onehot_loc)
    expect("Codebase.tree profile", cb.tree["./"].profile, onehot_loc)
    units = rep.all_report_units_sorted_by_length_asc(30)
    expect("Report findings threshold", len(units), int(L > 30))
    txt = harness.render(format_text.print_findings, rep, console_pos=0)
    rows = [l for l in txt.splitlines() if l.strip()]
    expect("format_text.print_findings", rows, [f"a.py:1:1: {L} {SYMBOL[cat]} f0"] if L > 30 else [])
    md = harness.render(format_markdown.print_findings, rep, console_pos=1)
    rows = [l for l in md.splitlines() if l.startswith("| ") and not l.startswith("| **") and not l.startswith("| ---")]
    sym_md = "❌" if cat == 3 else "⚠"
    expect("format_markdown.print_findings", rows, [f"| a.py | 1 | 1 | {L} | {sym_md} f0 |"] if L > 30 else [])
    rep2 = Report(cb, GithubRepository("o", "n", branch="b"))
    md2 = harness.render(format_markdown.print_findings, rep2, console_pos=1)
    rows = [l for l in md2.splitlines() if l.startswith("| ") and not l.startswith("| **") and not l.startswith("| ---")]
    want = [f"| {sym_md} [f0](https://github.com/o/n/blob/b/a.py#L1-L{L}) | {L} | a.py |"] if L > 30 else []
    expect("format_markdown.print_findings(repository)", rows, want)
    return cat, out


# ---------------------------------------------------------------------------------------
# (b) through the real check command
# ---------------------------------------------------------------------------------------

LINE = re.compile(r"^(?P<path>.+?):(?P<line>\d+):(?P<col>\d+): (?P<len>\d+) (?P<sym>\S) (?P<name>\S+)$")
SUMMARY = re.compile(r"^(\d+) files checked, (?:(\d+) functions need refactoring\.|.*Refactoring not necessary.*)$")


def build_tree(seq_py, seq_js, bare=None):
    """returns (files dict, expected per-file list of (name, length, header line)).
    bare = None | 'nl' | 'nonl': each file consists of exactly its first function and nothing else (no preamble, no
    blank lines), with or without a final newline - the shape a file-size shortcut would misjudge"""
    files, truth = {}, {}
    if bare in ("nl", "nonl"):
        for fname, seq, gen in (("a.py", seq_py, harness.py_function), ("b.js", seq_js, harness.js_function)):
            if seq:
                text = gen(f"{fname[0]}0", seq[0])
                files[fname] = text if bare == "nl" else text.rstrip("\n")
                truth[fname] = [(f"{fname[0]}0", seq[0], 1)]
            else:
                files[fname] = "x = 1\n" if fname.endswith(".py") else "var x = 1;\n"
                truth[fname] = []
        return files, truth
    for fname, seq, gen in (("a.py", seq_py, harness.py_function), ("b.js", seq_js, harness.js_function)):
        text = "x = 1\n" if fname.endswith(".py") else "var x = 1;\n"
        line = 2
        t = []
        for i, L in enumerate(seq):
            # mode 'dup': every function of the file has the SAME name (overloads, several __init__): still one finding each
            # (the shared name is also LONG: a listing row is then wider than an 80-column terminal and must still be complete)
            name = f"{fname[0]}dup_handler_for_the_incoming_request_with_a_descriptive_but_rather_long_name_{'x' * 30}" if bare == "dup" else f"{fname[0]}{i}"
            text += "\n" + gen(name, L)
            line += 1
            t.append((name, L, line))
            line += L
        files[fname] = text
        truth[fname] = t
    return files, truth


def parse_check_output(text):
    rows, summary, junk = [], None, []
    for l in text.splitlines():
        if not l.strip():
            continue
        m = LINE.match(l)
        if m:
            rows.append((m["path"], int(m["line"]), int(m["col"]), int(m["len"]), m["sym"], m["name"]))
            continue
        s = SUMMARY.match(l)
        if s:
            summary = (int(s.group(1)), int(s.group(2)) if s.group(2) else 0, "not necessary" in l)
            continue
        junk.append(l)
    return rows, summary, junk


def eval_tree(seq_py, seq_js, bare=None):
    from codelimit.commands.check import check_command
    from codelimit.common.Scanner import scan_path

    out = []
    files, truth = build_tree(seq_py, seq_js, bare)
    all_lengths = [L for t in truth.values() for _, L, _ in t]
    want_exit = 1 if any(L > 60 for L in all_lengths) else 0
    want_rows = {}
    for f, t in truth.items():
        risky = [(n, L, ln) for n, L, ln in t if L > 30]
        risky.sort(key=lambda x: -x[1])  # stable: ties keep source order
        want_rows[f] = [(f, ln, 1, L, SYMBOL[category(L)], n) for n, L, ln in risky]
    n_listed = sum(len(v) for v in want_rows.values())
    outcomes = []

    def judge(paths, quiet, entry, nfiles):
        overlap = len(paths) >= 2 and paths.count(Path("a.py")) + (1 if Path(".") in paths else 0) >= 2
        sig = {"paths": "dir" if len(paths) == 1 else ("dir+file" if overlap else "files"), "quiet": quiet}
        if entry:
            # the command-line entry point (option handling, configuration file, logging set-up), not only the command function
            import codelimit.__main__ as cli
            sig["entry"] = "cli"
            code, text, exc = harness.run_cli_function(cli.check, paths=list(paths), exclude=None, quiet=quiet, verbose=False)
        else:
            code, text, exc = harness.run_cli_function(check_command, list(paths), quiet)
        if exc is not None:
            out.append(("check-raised", dict(sig, error=type(exc).__name__), repr(exc)))
            return
        outcomes.append(code)
        if code != want_exit:
            out.append(("exit-status-wrong", sig, f"exit {code}, expected {want_exit} for lengths {all_lengths}"))
        rows, summary, junk = parse_check_output(text)
        if quiet and n_listed == 0:
            if text.strip():
                out.append(("quiet-not-silent", sig, f"--quiet printed {text!r} although nothing is over 30"))
            return
        # lines that are neither a listing row nor the summary (junk) are not judged: the property is about the rows,
        # the summary count and --quiet silence; a reformatted row shows up as a missing row below
        got = {f: [r for r in rows if r[0] == f] for f in want_rows}
        extra = [r for r in rows if r[0] not in want_rows]
        if extra:
            out.append(("listing-wrong", dict(sig, what="unknown-file"), repr(extra[:3])))
        if overlap:
            # a.py is reached twice: it is listed once per visit, and the summary counts what is listed
            n_rows = len(rows)
            if sorted(set(got["a.py"])) != sorted(set(want_rows["a.py"])) or sorted(set(got["b.js"])) != sorted(set(want_rows["b.js"])):
                out.append(("listing-wrong", dict(sig, what="set-or-fields"), f"listed {got}, expected every function over 30 of {want_rows}"))
            if summary is None or summary[1] != n_rows or summary[0] != 3 or len(got["a.py"]) != 2 * len(want_rows["a.py"]):
                out.append(("summary-count-wrong", sig, f"summary {summary} but {n_rows} functions are listed over 3 file visits"))
            return
        for f in want_rows:
            if got[f] != want_rows[f]:
                what = "order" if sorted(got[f]) == sorted(want_rows[f]) else "set-or-fields"
                out.append(("listing-wrong", dict(sig, what=what), f"{f}: listed {got[f]}, expected {want_rows[f]}"))
        if summary is None:
            out.append(("summary-missing", sig, text[-300:]))
        else:
            nf, nfun, happy = summary
            if nf != nfiles:
                out.append(("summary-file-count-wrong", sig, f"{nf} files checked, expected {nfiles}"))
            if (n_listed == 0) != happy or nfun != n_listed:
                out.append(("summary-count-wrong", sig, f"summary says {nfun} (happy={happy}), listed/expected {n_listed}"))

    # every other tree lives below a hidden directory (a workspace under ~/.cache, ~/.local, .worktrees/...)
    under = ".ci/ws" if (len(seq_py) + len(seq_js)) % 2 else None
    with harness.temp_tree(files, under=under) as root, harness.cwd(root):
        for paths in ([Path(".")], [Path("a.py"), Path("b.js")], [Path("."), Path("a.py")], [Path("a.py"), Path("b.js"), Path("a.py")]):
            for quiet in (False, True):
                judge(paths, quiet, False, 2)
        for quiet in (False, True):
            judge([Path(".")], quiet, True, 2)
        # the same tree through scan: LOC-weighted profile and counters
        harness.reset_globals()
        cb = scan_path(Path(root))
        cb.aggregate()
        prof = [0, 0, 0, 0]
        for L in all_lengths:
            prof[category(L)] += L
        if cb.tree["./"].profile != prof:
            out.append(("scan-profile-wrong", {}, f"root profile {cb.tree['./'].profile}, expected {prof} for {truth}"))
        for lang, fname in (("Python", "a.py"), ("JavaScript", "b.js")):
            t = cb.totals.get(lang)
            ls = [L for _, L, _ in truth[fname]]
            want = (1, sum(ls), len(ls), sum(1 for L in ls if category(L) == 2), sum(1 for L in ls if category(L) == 3))
            got = (t.files, t.loc, t.functions, t.hard_to_maintain, t.unmaintainable) if t else None
            if got != want:
                out.append(("scan-counters-wrong", {"language": lang}, f"{lang}: {got}, expected {want}"))
        # a third, short file that is not valid UTF-8 (read through the Latin-1 fallback): same verdict, same listing, same silence
        (Path(root) / "l.py").write_bytes(("# caf\xe9\n" + harness.py_function("latin_fn", 5)).encode("latin-1"))
        for quiet in (False, True):
            for entry in (False, True):
                before = len(out)
                judge([Path(".")], quiet, entry, 3)
                for i in range(before, len(out)):
                    out[i] = (out[i][0], dict(out[i][1], with_non_utf8_file=True), out[i][2])
    return (want_exit, n_listed), out


def eval_nested(outer_own, inner_len, lang):
    """a long function nested in a long function: both are findings (check listing, report findings in both formats)"""
    from codelimit.commands.check import check_command
    from codelimit.common.report import format_markdown, format_text
    from codelimit.common.report.Report import Report
    from codelimit.common.Scanner import scan_path
    from mc.gen import canon, programs

    out = []
    pre = outer_own // 2
    body = [programs.S("simple")] * max(0, pre - 1) + [programs.nested(lang, "inner_fn", [programs.S("simple")] * (inner_len - (2 if lang != "Python" else 1)))] + \
           [programs.S("simple")] * max(0, outer_own - pre - (1 if lang != "Python" else 0))
    spec = {"lang": lang, "items": [programs.func("outer_fn", body), programs.func("flat_fn", [programs.S("simple")] * 3)]}
    text, funcs = canon.render(spec)
    fname = "n." + canon.EXT[lang]
    with harness.temp_tree({fname: text}) as root:
        harness.reset_globals()
        cb = scan_path(root)
        cb.aggregate()
        ms = {m.unit_name: m.value for e in cb.files.values() for m in e.measurements()}
        want = sorted([(n, v) for n, v in ms.items() if v > 30], key=lambda t: -t[1])
        rep = Report(cb)
        sig = {"language": lang}
        for fmt, txt in (("text", harness.render(format_text.print_findings, rep, True, console_pos=0)),
                         ("markdown", harness.render(format_markdown.print_findings, rep, True, console_pos=1))):
            listed = [(n, v) for n, v in ms.items() if re.search(rf"\b{v}\b.*\b{n}\b|\b{n}\b.*\b{v}\b", txt)]
            if sorted(listed) != sorted(want):
                out.append(("findings-miss-nested-function", dict(sig, format=fmt), f"measured {ms}; findings list {listed}, expected {want}\n{txt[:400]}"))
        with harness.cwd(root):
            code, text_out, exc = harness.run_cli_function(check_command, [Path(fname)], False)
        rows, summary, _ = parse_check_output(text_out if exc is None else "")
        got = [(r[5], r[3]) for r in rows]
        if exc is not None or got != want or code != (1 if any(v > 60 for _, v in want) else 0):
            out.append(("check-listing-wrong-for-nested", sig, f"measured {ms}; check lists {got} exit {code} {exc!r}"))
    return (len(want), ms.get("outer_fn"), ms.get("inner_fn")), out


def _block(block, agg):
    # an 80-column terminal (a pipe, a CI log), in the environment before the first console of this fresh process is created
    os.environ["COLUMNS"] = "80"
    kind, payload = block
    if kind == "nested":
        for outer_own, inner_len, lang in payload:
            case = {"part": "c", "outer_own": outer_own, "inner": inner_len, "lang": lang}
            oc, viol = eval_nested(outer_own, inner_len, lang)
            agg.case(case, oc[0] > 0, oc, sample=oc[0] == 2)
            for k, sig, d in viol:
                agg.violation(k, sig, case, d)
        return
    if kind == "bare":
        for seq_py, seq_js, bare in payload:
            case = {"part": "b", "py": list(seq_py), "js": list(seq_js), "bare": bare}
            oc, viol = eval_tree(seq_py, seq_js, bare)
            agg.case(case, oc[1] > 0, oc, sample=False)
            agg.transitions += 15
            for k, sig, d in viol:
                agg.violation(k, dict(sig, bare=bare), case, d)
        return
    if kind == "len":
        for L in payload:
            cat, viol = eval_length(L)
            agg.case({"part": "a", "L": L}, True, f"cat{cat}", sample=L in (15, 16, 31, 61))
            for k, sig, d in viol:
                agg.violation(k, sig, {"part": "a", "L": L}, d)
    else:
        for seq_py, seq_js in payload:
            case = {"part": "b", "py": list(seq_py), "js": list(seq_js)}
            oc, viol = eval_tree(seq_py, seq_js)
            agg.case(case, oc[1] > 0, oc, sample=oc[1] >= 2)
            agg.transitions += 15
            for k, sig, d in viol:
                agg.violation(k, sig, case, d)


def replay(case):
    if case["part"] == "a":
        _, viol = eval_length(case["L"])
    elif case["part"] == "c":
        _, viol = eval_nested(case["outer_own"], case["inner"], case["lang"])
    elif case.get("bare"):
        _, viol = eval_tree(case["py"], case["js"], case["bare"])
        viol = [(k, dict(sg, bare=case["bare"]), d) for k, sg, d in viol]
    else:
        _, viol = eval_tree(case["py"], case["js"])
    return [{"kind": k, "sig": s, "detail": d} for k, s, d in viol]


def run(ctx: core.Ctx):
    N = ctx.pick(2, 3)
    ctx.bounds = {"lengths": "1..80 + [100, 999, 1000, 7000]", "boundary_set": BOUNDARY, "max_functions": N}
    ctx.rule = ("(a) one case per length L through 17 threshold sites; (b) one case per ordered pair (functions in a.py, functions in b.js) "
                f"with <= {N} functions in total and lengths from the boundary set, each run through check_command 4 times (dir/files x "
                "quiet) and scan_path once. Non-trivial: at least one function over 30 lines. Outcome = (expected exit, #listed).")
    ctx.assumptions = ["generated Python/JavaScript functions have exactly the intended length (re-checked through scan_path counters in every case)"]
    blocks = [("len", LENGTHS[i:i + 12]) for i in range(0, len(LENGTHS), 12)]
    trees = []
    for k in range(0, N + 1):
        for i in range(0, k + 1):
            for a in itertools.product(BOUNDARY, repeat=i):
                for b in itertools.product(BOUNDARY, repeat=k - i):
                    trees.append((a, b))
    step = max(1, len(trees) // (ctx.workers * 3) + 1)
    blocks += [("tree", trees[i:i + step]) for i in range(0, len(trees), step)]
    bare_lengths = [2, 15, 16, 29, 30, 31, 32, 59, 60, 61, 62]
    bare = [((L,), (M,), b) for L in bare_lengths for M in bare_lengths for b in ("nl", "nonl") if L == M or (L, M) in ((31, 2), (2, 31), (61, 31))]
    blocks += [("bare", bare[i:i + 6]) for i in range(0, len(bare), 6)]
    dup = [((40, 35), (65, 45, 45), "dup"), ((31, 31), (61,), "dup"), ((61, 61, 10), (31,), "dup"), ((10, 10), (12, 31), "dup")]
    blocks += [("bare", dup)]
    ctx.bounds["files_whose_functions_share_one_name"] = [list(map(list, d[:2])) for d in dup]
    nested = [(o, i, lang) for o in (5, 16, 31, 61) for i in (5, 16, 31, 61) for lang in ("Python", "JavaScript")]
    blocks += [("nested", nested[i:i + 4]) for i in range(0, len(nested), 4)]
    ctx.bounds["bare_single_function_files"] = {"lengths": bare_lengths, "final_newline": ["yes", "no"]}
    ctx.bounds["nested"] = "outer own length x inner length in {5,16,31,61}^2, Python and JavaScript"
    ctx.run_blocks(_block, blocks)
