"""C05 - every reported measurement is well-formed, for every input.

The malformed-input space of C03 (token soups, every single damage of canonical seeds, deep
nesting) plus canonical programs, run through the real lex + scan_file with an output oracle
that recomputes offsets from raw Pygments tokens; a file-level pass checks that
SourceFileEntry.loc is the sum of the function lengths.
"""
from __future__ import annotations

from pathlib import Path

from mc import core, harness
from mc.gen import canon, malformed, oracle, programs

ID = "C05"
LEVEL = "exploration"
TECHNIQUE = "bounded-exhaustive enumeration of malformed inputs (all lexeme soups <= n, all single damages of seed programs, deep nesting) with an output well-formedness oracle"
LEVEL_TEXT = ("Every lexeme soup up to the length bound over each language's lexical alphabet, every prefix / suffix / single token or line "
              "deletion, duplication and swap of ~11 canonical seeds per language, and deep-nesting inputs are analysed by the real code; "
              "every reported measurement must satisfy all clauses of the property (ranges, token-aligned start/end, identifier name inside "
              "the span, 1 <= length <= code-bearing lines, strict source order, file total = sum). Exhaustive within the bounds.")
LEVEL_NOTE = "Trusted: Pygments token stream and the 40-line oracle mc/gen/oracle.py:wellformed. Inputs on which analysis raises are C03's concern and are counted, not judged, here."


def eval_desc(desc):
    lang = desc["lang"]
    text = malformed.text_of(desc)
    try:
        with core.time_limit(120):
            ms = oracle.as_tuples(oracle.scan_text(lang, text))
    except core.Timeout:
        return "timeout", []
    except Exception as e:  # noqa - totality is C03
        return "raised:" + type(e).__name__, []
    return len(ms), oracle.wellformed(lang, text, ms)


def _emit(agg, desc):
    oc, viol = eval_desc(desc)
    agg.case(desc, isinstance(oc, int) and oc > 0, oc, sample=isinstance(oc, int) and oc >= 2)
    if not isinstance(oc, int):
        agg.extra["analysis_raised_or_timed_out(see C03)"] += 1
    for k, sig, d in viol:
        agg.violation(k, sig, desc, d + "\n" + malformed.text_of(desc)[:800])


def _file_bytes(d):
    return bytes.fromhex(d["hex"]) if d.get("fam") == "bytes" else malformed.text_of(d).encode("utf-8")


def _reference_text(data: bytes):
    """what the tool is documented to analyse: the file decoded as UTF-8, or as Latin-1 when it is not valid UTF-8; universal newlines"""
    try:
        t = data.decode("utf-8")
    except UnicodeDecodeError:
        t = data.decode("latin-1")
    return t.replace("\r\n", "\n").replace("\r", "\n")


def eval_files(lang, descs):
    """file-level: loc == sum(values), scan_path agrees with scan_file on the decoded text, and every measurement is well-formed
    with respect to that text (a file that is not UTF-8 is read as Latin-1: nothing is dropped or replaced)"""
    from codelimit.common.Scanner import scan_path

    out = []
    files = {f"s{i}.{canon.EXT[lang]}": _file_bytes(d) for i, d in enumerate(descs)}
    with harness.temp_tree(files) as root:
        harness.reset_globals()
        try:
            cb = scan_path(Path(root))
        except Exception as e:  # noqa
            return [("__raised__", {}, descs[0], repr(e))]
        for i, d in enumerate(descs):
            name = f"s{i}.{canon.EXT[lang]}"
            e = cb.files.get(name)
            if e is None:
                out.append(("file-missing-from-scan", {"language": lang}, d, name))
                continue
            vals = [m.value for m in e.measurements()]
            if e.loc != sum(vals):
                out.append(("file-total-is-not-sum-of-lengths", {"language": lang}, d, f"loc={e.loc} sum={sum(vals)}"))
            text = _reference_text(files[name])
            got = oracle.as_tuples(e.measurements())
            for k, sig, detail in oracle.wellformed(lang, text, got):
                out.append((k, dict(sig, level="file"), d, detail))
            try:
                direct = oracle.as_tuples(oracle.scan_text(lang, text))
            except Exception:
                continue
            if got != direct:
                out.append(("scan-path-differs-from-scan-file", {"language": lang}, d, f"{got[:2]} vs {direct[:2]}"))
    return out


def _block(block, agg):
    kind = block[0]
    if kind == "soup":
        for desc in malformed.soups_of_block(block[1]):
            _emit(agg, desc)
    elif kind == "damage":
        _, lang, seed, stride = block
        text = malformed.seed_text(lang, seed)
        _emit(agg, {"fam": "seed", "lang": lang, "seed": seed})
        for i, (op, at) in enumerate(malformed.damage_ops(text)):
            if op in ("prefix", "suffix") and at % stride:
                continue
            _emit(agg, {"fam": "damage", "lang": lang, "seed": seed, "op": op, "at": at})
    elif kind == "descs":
        for desc in block[1]:
            _emit(agg, desc)
    elif kind == "deep":
        _, lang, shape, d = block
        _emit(agg, {"fam": "deep", "lang": lang, "shape": shape, "d": d})
    elif kind == "files":
        _, lang = block
        descs = [{"fam": "seed", "lang": lang, "seed": i} for i in range(len(malformed.seeds(lang)))]
        text0 = malformed.seed_text(lang, 0)
        descs += [{"fam": "damage", "lang": lang, "seed": 0, "op": "prefix", "at": at} for at in range(0, len(text0), 7)]
        for sk in programs.skeletons(lang).values():
            descs.append({"fam": "text", "lang": lang, "text": canon.render(sk)[0]})
        many = {"lang": lang, "items": [programs.func(f"q{i}", [programs.S("simple")] * (i + 1)) for i in range(7)]}
        descs.append({"fam": "text", "lang": lang, "text": canon.render(many)[0]})
        from mc.gen import wild
        for wname, _t in wild.snippets(lang):
            descs.append({"fam": "wild", "lang": lang, "name": wname})
        # files in a legacy 8-bit encoding with non-ASCII letters in function names and in front of them, and files with CR / CRLF ends
        two = canon.render(programs.skeletons(lang)["two"])[0]
        legacy = two.replace("f0", "gr\u00f6\u00dfe").replace("f1", "caf\u00e9")
        lead = "#" if lang == "Python" else "//"
        legacy = f"{lead} \u00e9\u00e8 legacy header\n" + legacy
        for enc in ("latin-1", "cp1252", "utf-8"):
            descs.append({"fam": "bytes", "lang": lang, "hex": legacy.encode(enc).hex()})
        descs.append({"fam": "bytes", "lang": lang, "hex": two.replace("\n", "\r\n").encode().hex()})
        descs.append({"fam": "bytes", "lang": lang, "hex": two.replace("\n", "\r").encode().hex()})
        for k, sig, d, detail in eval_files(lang, descs):
            if k == "__raised__":
                agg.extra["analysis_raised_or_timed_out(see C03)"] += 1
                continue
            agg.violation(k, sig, {"fam": "file", "lang": lang, "desc": d}, detail)
        agg.case({"fam": "files", "lang": lang, "n": len(descs)}, True, "files", sample=False)
    elif kind == "canon":
        _, lang, shard, n = block
        for i, (_, _, spec) in enumerate(programs.e2_programs(lang, list(canon.statements(lang)), 1)):
            if i % n == shard:
                text, _ = canon.render(spec)
                _emit(agg, {"fam": "text", "lang": lang, "text": text})


def replay(case):
    if case.get("fam") == "files":
        return []
    if case.get("fam") == "file":
        viol = eval_files(case["lang"], [case["desc"] if "desc" in case else {"fam": "text", "lang": case["lang"], "text": case["text"]}])
        return [{"kind": k, "sig": s, "detail": d} for k, s, _, d in viol if k != "__raised__"]
    _, viol = eval_desc(case)
    return [{"kind": k, "sig": s, "detail": d} for k, s, d in viol]


def run(ctx: core.Ctx):
    n_full = ctx.pick(4, 5)
    n_trim = ctx.pick(5, 6)
    stride = ctx.pick(2, 1)
    depths = ctx.pick([10, 100, 400], [10, 100, 1200])
    ctx.bounds = {"soup_max_lexemes_full_alphabet": n_full, "soup_max_lexemes_trimmed_alphabet(8)": n_trim,
                  "alphabets": malformed.ALPHABET, "damage": "every op at every position" if stride == 1 else "prefix/suffix every 2nd position, all token/line edits",
                  "deep_nesting_depths": depths, "deep_shapes": malformed.DEEP_SHAPES}
    ctx.rule = ("case = one input text (descriptor): soups = all lexeme sequences up to the bound; damage = every single damage of every seed; "
                "deep = nesting shapes x depths; canon = E2 programs with <= 1 deviation. Non-trivial: analysis returned >= 1 measurement. "
                "Outcome = number of measurements (or that analysis raised, which C03 judges).")
    blocks = []
    for lang in canon.LANGS:
        for n in range(1, n_full + 1):
            blocks += [("soup", b) for b in malformed.soup_blocks(lang, n, False)]
        for n in range(n_full + 1, n_trim + 1):
            blocks += [("soup", b) for b in malformed.soup_blocks(lang, n, True)]
        for s in range(len(malformed.seeds(lang))):
            blocks.append(("damage", lang, s, stride))
        for shape in malformed.DEEP_SHAPES:
            for d in depths:
                blocks.append(("deep", lang, shape, d))
        extra = malformed.wild_descs(lang, stride) + malformed.corpus_descs(lang, ctx.pick(2, 8), ctx.pick(4, 1))
        for i in range(0, len(extra), 400):
            blocks.append(("descs", extra[i:i + 400]))
        blocks.append(("files", lang))
        for sh in range(4):
            blocks.append(("canon", lang, sh, 4))
    ctx.run_blocks(_block, blocks)
