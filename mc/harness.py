"""Shared harness pieces: global-state reset, output capture, real-object builders, temp trees."""
from __future__ import annotations

import contextlib
import io
import logging
import os
import shutil
import sys
import tempfile
from pathlib import Path


def reset_globals():
    """Each CLI run is a fresh process for a user; undo module-level mutations the CLI makes."""
    from codelimit.common.Configuration import Configuration

    Configuration.exclude = []
    Configuration.verbose = False
    Configuration.repository = None
    root = logging.getLogger()
    for h in list(root.handlers):
        root.removeHandler(h)
    root.setLevel(logging.WARNING)


@contextlib.contextmanager
def cwd(path):
    old = os.getcwd()
    os.chdir(path)
    try:
        yield
    finally:
        os.chdir(old)


@contextlib.contextmanager
def temp_tree(files: dict | None = None, under: str | None = None):
    """files: {relative path: str|bytes}. under: the tree root is <tmp>/<under> (e.g. '.ci/ws': a checkout below a hidden
    directory such as ~/.cache or ~/.local - hidden-ness is about components BELOW the root, not above it)"""
    d = tempfile.mkdtemp(prefix="mc-")
    # resolve: macOS-style symlinked tmp dirs would otherwise confuse relative_to
    d = os.path.realpath(d)
    root = os.path.join(d, under) if under else d
    try:
        os.makedirs(root, exist_ok=True)
        if files:
            write_files(root, files)
        yield Path(root)
    finally:
        shutil.rmtree(d, ignore_errors=True)


def write_files(root, files: dict):
    for rel, content in files.items():
        p = Path(root) / rel
        p.parent.mkdir(parents=True, exist_ok=True)
        if isinstance(content, tuple) and content and content[0] == "symlink":
            os.symlink(content[1], str(p))  # ("symlink", target): target as written (relative targets are relative to the link)
        elif isinstance(content, bytes):
            p.write_bytes(content)
        else:
            p.write_text(content, encoding="utf-8")


@contextlib.contextmanager
def captured():
    """capture sys.stdout / sys.stderr (rich consoles resolve the stream lazily)"""
    out, err = io.StringIO(), io.StringIO()
    with contextlib.redirect_stdout(out), contextlib.redirect_stderr(err):
        yield out, err


def run_cli_function(fn, *args, **kwargs):
    """run a codelimit command function in-process. returns (exit_code|None, stdout, exception|None)
    exit_code None = returned normally."""
    import click
    import typer

    reset = kwargs.pop("_reset", True)
    if reset:
        reset_globals()
    with captured() as (out, err):
        try:
            fn(*args, **kwargs)
            code, exc = None, None
        except (typer.Exit, click.exceptions.Exit) as e:
            code, exc = e.exit_code, None
        except SystemExit as e:
            code, exc = e.code, None
        except Exception as e:  # noqa
            code, exc = None, e
    return code, out.getvalue(), exc


class _AsciiStream(io.StringIO):
    """a text stream that reports a non-UTF encoding (what rich looks at to decide whether it may print non-ASCII symbols)"""
    encoding = "ascii"


def recording_console(width=250, ascii_stream=False):
    from rich.console import Console

    return Console(record=True, width=width, file=_AsciiStream() if ascii_stream else io.StringIO(), force_terminal=False, color_system=None, soft_wrap=True)


def render(fn, *args, **kwargs):
    """call fn(console-arg-position by keyword 'console_pos') and return exported text"""
    pos = kwargs.pop("console_pos", 0)
    con = recording_console(kwargs.pop("width", 250), kwargs.pop("ascii_stream", False))
    a = list(args)
    a.insert(pos, con)
    fn(*a, **kwargs)
    return con.export_text()


# ---------------------------------------------------------------------------------------
# real-object builders
# ---------------------------------------------------------------------------------------

def measurement(name: str, length: int, line: int = 1, col: int = 1):
    from codelimit.common.Location import Location
    from codelimit.common.Measurement import Measurement

    return Measurement(name, Location(line, col), Location(line + max(0, length - 1), 2), length)


def file_entry(path: str, language: str, lengths, checksum="0" * 32, names=None, nested=False):
    """nested: the spans enclose each other like Russian dolls (function i+1 is defined inside function i); the value of a
    measurement is its OWN line count either way"""
    from codelimit.common.Location import Location
    from codelimit.common.Measurement import Measurement
    from codelimit.common.SourceFileEntry import SourceFileEntry

    if nested and len(lengths) > 1:
        total = sum(lengths) + 2 * len(lengths)
        # (functions 1 and 2 START ON THE SAME LINE at different columns: `function a() { return function b() {`)
        ms = [Measurement(names[i] if names else f"f{i}", Location(1 + max(0, i - 1), 1 + 12 * i), Location(total - i, 2 + 2 * i), L) for i, L in enumerate(lengths)]
        return SourceFileEntry(path, checksum, language, sum(lengths), ms)
    ms = []
    line = 1
    for i, L in enumerate(lengths):
        ms.append(measurement(names[i] if names else f"f{i}", L, line))
        line += L + 1
    return SourceFileEntry(path, checksum, language, sum(lengths), ms)


def codebase(files, root="/root"):
    """files: list of (path, language, lengths)"""
    from codelimit.common.Codebase import Codebase

    cb = Codebase(root)
    for path, lang, lengths in files:
        cb.add_file(file_entry(path, lang, lengths))
    return cb


# ---------------------------------------------------------------------------------------
# R-cat: the reference thresholds
# ---------------------------------------------------------------------------------------

def category(L: int) -> int:
    """0 easy (L<=15), 1 verbose (16..30), 2 hard-to-maintain (31..60), 3 unmaintainable (>60)"""
    if L <= 15:
        return 0
    if L <= 30:
        return 1
    if L <= 60:
        return 2
    return 3


def py_function(name: str, length: int, indent="") -> str:
    """Python function whose measured length is exactly `length` (header + length-1 body lines)"""
    if length == 1:
        # header and body on two lines would be length 2; a one-line def is not a canonical form.
        raise ValueError("length 1 needs the one-line form")
    lines = [f"{indent}def {name}():"]
    for i in range(length - 1):
        lines.append(f"{indent}    x{i} = {i}")
    return "\n".join(lines) + "\n"


def js_function(name: str, length: int) -> str:
    """JavaScript function of exactly `length` code lines (length >= 2)"""
    if length < 2:
        raise ValueError
    lines = [f"function {name}() {{"]
    for i in range(length - 2):
        lines.append(f"  x{i} = {i};")
    lines.append("}")
    return "\n".join(lines) + "\n"
