"""Builders that turn reference-side descriptions into *real* codelimit objects."""
from __future__ import annotations


ATOMS = {}  # letter -> real alphabet item (set by a check that wants non-trivial items, e.g. words or tuples)
SEQ = {}  # letter -> item of the INPUT sequence when it differs from the pattern's atom (atoms that are predicate objects)


def to_expr(t, memo=None):
    """pattern tree (mc.refs.regex) -> real codelimit Expression. With a memo dict, equal sub-trees become the SAME Python object
    (the way a language definition reuses one operand list in two places of its pattern)"""
    if memo is not None and t[0] in ("cat", "alt", "opt", "star", "plus"):
        if t not in memo:
            memo[t] = _to_expr(t, memo)
        return memo[t]
    return _to_expr(t, memo)


def _to_expr(t, memo):
    from codelimit.common.gsm.operator.OneOrMore import OneOrMore
    from codelimit.common.gsm.operator.Optional import Optional
    from codelimit.common.gsm.operator.Union import Union
    from codelimit.common.gsm.operator.ZeroOrMore import ZeroOrMore

    op = t[0]
    if op == "cat":
        items = []
        for child in t[1:]:
            e = to_expr(child, memo)
            if child[0] == "cat":
                items.extend(e)
            else:
                items.append(e)
        return items
    if op == "alt":
        return Union(to_expr(t[1], memo), to_expr(t[2], memo))
    if op == "opt":
        return Optional(to_expr(t[1], memo))
    if op == "star":
        return ZeroOrMore(to_expr(t[1], memo))
    if op == "plus":
        return OneOrMore(to_expr(t[1], memo))
    v = ATOMS.get(op, op)
    # an atom given as a factory yields a FRESH (equal but distinct) object at every occurrence in the pattern
    return v() if isinstance(v, AtomFactory) else v


class AtomFactory:
    def __init__(self, make):
        self.make = make

    def __call__(self):
        return self.make()


def real_seq(seq):
    return [SEQ.get(ch, ATOMS.get(ch, ch)) for ch in seq]


def top_expr(t, shared=False):
    e = to_expr(t, {} if shared else None)
    return e if isinstance(e, list) else [e]
