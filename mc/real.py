"""Builders that turn reference-side descriptions into *real* codelimit objects."""
from __future__ import annotations


ATOMS = {}  # letter -> real alphabet item (set by a check that wants non-trivial items, e.g. words or tuples)


def to_expr(t):
    """pattern tree (mc.refs.regex) -> real codelimit Expression"""
    from codelimit.common.gsm.operator.OneOrMore import OneOrMore
    from codelimit.common.gsm.operator.Optional import Optional
    from codelimit.common.gsm.operator.Union import Union
    from codelimit.common.gsm.operator.ZeroOrMore import ZeroOrMore

    op = t[0]
    if op == "cat":
        items = []
        for child in t[1:]:
            e = to_expr(child)
            if child[0] == "cat":
                items.extend(e)
            else:
                items.append(e)
        return items
    if op == "alt":
        return Union(to_expr(t[1]), to_expr(t[2]))
    if op == "opt":
        return Optional(to_expr(t[1]))
    if op == "star":
        return ZeroOrMore(to_expr(t[1]))
    if op == "plus":
        return OneOrMore(to_expr(t[1]))
    return ATOMS.get(op, op)


def real_seq(seq):
    return [ATOMS.get(ch, ch) for ch in seq]


def top_expr(t):
    e = to_expr(t)
    return e if isinstance(e, list) else [e]
