"""Regenerates /verif/MANIFEST.json from the check modules that exist (python -m mc.manifest)."""
import importlib
import json
import pathlib

VERIF = pathlib.Path(__file__).resolve().parent.parent
ALL = [f"C{i:02d}" for i in range(1, 20)]
PY = "/venv/bin/python"


def main():
    checks, na = [], []
    for pid in ALL:
        try:
            mod = importlib.import_module(f"mc.checks.{pid.lower()}")
        except ModuleNotFoundError:
            na.append({"property_id": pid, "reason": "check not built yet (designed in DESIGN.md section 5); not claimed until its explorer exists"})
            continue
        if getattr(mod, "NOT_CLAIMED", None):
            na.append({"property_id": pid, "reason": mod.NOT_CLAIMED})
            continue
        checks.append({
            "property_id": pid,
            "quick_cmd": f"{PY} -m mc.run {pid} --tier quick",
            "thorough_cmd": f"{PY} -m mc.run {pid} --tier thorough",
            "evidence_file": f"/verif/evidence/{pid}.json",
            "replay_cmd_template": f"{PY} -m mc.run {pid} --replay {{path}}",
            "engine": "mc",
            "level_claimed": {"category": mod.LEVEL, "text": mod.LEVEL_TEXT, "design_ref": f"DESIGN.md section 5, {pid}"},
            "level_note": mod.LEVEL_NOTE,
            "technique": mod.TECHNIQUE,
        })
    man = {
        "version": 1,
        "setup_cmd": f"cd /verif && {PY} -m mc.selftest",
        "hooks": {
            "guard": "CODELIMIT_VERIF",
            "enable": "no source hooks: every seam is wrapped from the harness process (module attributes looked up at call time); checks import /repo's working tree directly (PYTHONPATH=/repo, editable install)",
            "baseline_off_cmd": "cd /repo && /venv/bin/python -m pytest -ra -q -p no:cacheprovider --timeout=900 --continue-on-collection-errors",
            "source_commits": [],
            "add_only": True,
        },
        "engines": [{
            "name": "mc", "path": "/verif/mc",
            "serves_properties": [c["property_id"] for c in checks],
            "kind_free_text": "hand-written stateless explicit-state / bounded-exhaustive explorer in Python that uses the real codelimit implementation as transition function and boring reference models as oracle (mc/core.py, mc/refs/*)",
        }],
        "checks": checks,
        "not_applicable": na,
        "notes": "All checks: cd /verif && /venv/bin/python -m mc.run <ID> --tier quick|thorough. Exit 0 = held, 1 = VIOLATION line(s), 2 = harness error. Known findings: /verif/known_findings.json. MC_REPO=<dir> points the checks at a scratch copy instead of /repo.",
    }
    (VERIF / "MANIFEST.json").write_text(json.dumps(man, indent=1) + "\n")
    print(f"claimed={len(checks)} not_applicable={len(na)}")


if __name__ == "__main__":
    main()
