"""Core of the bounded-exhaustive explorer: environment pinning, sharded execution,
aggregation, known-finding matching, replay files and evidence writing.

Every check module in mc.checks exposes

    ID, LEVEL, TECHNIQUE
    run(ctx)            -> explores; records cases / violations through ctx / Agg
    replay(case)        -> list of violation dicts for one recorded case (no explorer)

A *case* is always a JSON value; a violation is a dict
    {"kind": str, "sig": {str: str|int|bool}, "case": <json>, "detail": str}
``sig`` is the structural class of the failure (what known_findings.json matches on).
"""
from __future__ import annotations

import hashlib
import json
import multiprocessing as mp
import os
import signal
import subprocess
import sys
import time
import traceback
from collections import Counter
from pathlib import Path

VERIF = Path(__file__).resolve().parent.parent
REPO = Path(os.environ.get("MC_REPO", "/repo")).resolve()
GUARD = "CODELIMIT_VERIF"

PINNED_ENV = {
    "PYTHONHASHSEED": "0",
    "PYTHONUTF8": "1",
    "LC_ALL": "C",
    "LANG": "C",
    "COLUMNS": "250",
    "LINES": "50",
    "NO_COLOR": "1",
    "TERM": "dumb",
    "PYTHONWARNINGS": "ignore",
    "PYTHONDONTWRITEBYTECODE": "1",
    GUARD: "1",
}


def pin_environment():
    """Re-exec once so that hash seed / locale / terminal are owned by the harness."""
    need = any(os.environ.get(k) != v for k, v in PINNED_ENV.items())
    for k in ("GITHUB_REF", "GITHUB_HEAD_REF"):
        if k in os.environ:
            need = True
    if need and os.environ.get("MC_PINNED") != "1":
        env = dict(os.environ)
        env.update(PINNED_ENV)
        env.pop("GITHUB_REF", None)
        env.pop("GITHUB_HEAD_REF", None)
        env["MC_PINNED"] = "1"
        env["PYTHONPATH"] = f"{REPO}:{VERIF}" + (":" + env["PYTHONPATH"] if env.get("PYTHONPATH") else "")
        os.execve(sys.executable, [sys.executable, "-m", "mc.run"] + sys.argv[1:], env)
    if str(REPO) not in sys.path[:2]:
        sys.path.insert(0, str(REPO))
    import codelimit  # noqa

    here = Path(codelimit.__file__).resolve()
    if REPO not in here.parents:
        raise HarnessError(f"codelimit imported from {here}, expected under {REPO}")


_PRE = {"done": False}


def preimport():
    """import (not use) everything the forked children need, once, in the parent"""
    if _PRE["done"]:
        return
    _PRE["done"] = True
    import importlib
    import pkgutil

    import codelimit

    for m in pkgutil.walk_packages(codelimit.__path__, "codelimit."):
        if m.name.endswith(("__main__", "github_auth", "commands.upload", "commands.app")):
            continue
        try:
            importlib.import_module(m.name)
        except Exception:
            pass
    from pygments.lexers import get_lexer_for_filename

    for ext in ("c", "cpp", "cs", "java", "js", "ts", "py"):
        get_lexer_for_filename("x." + ext)
    try:
        import codelimit.__main__  # noqa
    except Exception:
        pass


class HarnessError(Exception):
    """The machinery itself is broken (never reported as a VIOLATION)."""


class Timeout(BaseException):
    pass


class time_limit:
    """SIGALRM watchdog that turns a hang into an observable outcome."""

    def __init__(self, seconds: float):
        self.seconds = seconds

    def _raise(self, *_):
        raise Timeout()

    def __enter__(self):
        self.old = signal.signal(signal.SIGALRM, self._raise)
        signal.setitimer(signal.ITIMER_REAL, self.seconds)

    def __exit__(self, *exc):
        signal.setitimer(signal.ITIMER_REAL, 0)
        signal.signal(signal.SIGALRM, self.old)
        return False


def digest(obj) -> int:
    s = json.dumps(obj, sort_keys=True, ensure_ascii=False, default=str)
    return int.from_bytes(hashlib.blake2b(s.encode("utf-8", "surrogatepass"), digest_size=8).digest(), "big")


def sig_key(kind: str, sig: dict) -> str:
    return kind + "|" + json.dumps(sig, sort_keys=True, ensure_ascii=False)


class Agg:
    """Order-independent accumulator; one per shard, merged in the parent."""

    MAX_PER_CLASS = 3
    MAX_SAMPLES = 4

    def __init__(self):
        self.evaluations = 0
        self.nontrivial: set[int] = set()
        self.outcomes: Counter = Counter()
        self.states: set[int] = set()
        self.transitions = 0
        self.traces = 0
        self.violations: dict[str, list] = {}
        self.vcount: Counter = Counter()
        self.samples: list = []
        self.extra: Counter = Counter()
        self.notes: set[str] = set()

    # -- recording ---------------------------------------------------------------
    def case(self, case, nontrivial: bool, outcome=None, sample=True):
        self.evaluations += 1
        self.traces += 1
        if nontrivial:
            self.nontrivial.add(digest(case))
        if outcome is not None:
            self.outcomes[str(outcome)] += 1
        if sample and len(self.samples) < self.MAX_SAMPLES and nontrivial:
            self.samples.append(case)

    def state(self, canon):
        self.states.add(canon if isinstance(canon, int) else digest(canon))

    def violation(self, kind: str, sig: dict, case, detail: str = ""):
        k = sig_key(kind, sig)
        self.vcount[k] += 1
        lst = self.violations.setdefault(k, [])
        rec = {"kind": kind, "sig": sig, "case": case, "detail": detail[:2000], "_block": getattr(self, "block", None)}
        size = len(json.dumps(case, default=str))
        lst.append((size, rec))
        lst.sort(key=lambda x: (x[0], json.dumps(x[1]["case"], sort_keys=True, default=str)))
        del lst[self.MAX_PER_CLASS:]

    # -- merging -----------------------------------------------------------------
    def merge(self, other: "Agg"):
        self.evaluations += other.evaluations
        self.nontrivial |= other.nontrivial
        self.outcomes.update(other.outcomes)
        self.states |= other.states
        self.transitions += other.transitions
        self.traces += other.traces
        self.extra.update(other.extra)
        self.notes |= other.notes
        for k, lst in other.violations.items():
            mine = self.violations.setdefault(k, [])
            mine.extend(lst)
            mine.sort(key=lambda x: (x[0], json.dumps(x[1]["case"], sort_keys=True, default=str)))
            del mine[self.MAX_PER_CLASS:]
        self.vcount.update(other.vcount)
        # deterministic regardless of the order in which shards finish
        merged = {json.dumps(x, sort_keys=True, ensure_ascii=False, default=str): x for x in self.samples + other.samples}
        self.samples = [merged[k] for k in sorted(merged)[: self.MAX_SAMPLES]]


def _worker(args):
    fn, block = args
    agg = Agg()
    agg.block = block
    t0 = time.time()
    try:
        fn(block, agg)
    except Timeout:
        agg.notes.add(f"HARNESS-ERROR block {block!r}: unexpected timeout escaping block")
    except Exception:
        agg.notes.add(f"HARNESS-ERROR block {block!r}: {traceback.format_exc()[-1500:]}")
    if os.environ.get("MC_PROFILE"):
        fam = block[0] if isinstance(block, (tuple, list)) and block and isinstance(block[0], str) else "block"
        agg.extra[f"cpu_seconds_x10:{fam}"] += int((time.time() - t0) * 10)
    return agg


class Ctx:
    def __init__(self, prop: str, tier: str, seed: int, workers: int | None = None):
        self.prop = prop
        self.tier = tier
        self.seed = seed
        self.workers = workers or min(16, os.cpu_count() or 1)
        self.agg = Agg()
        self.bounds: dict = {}
        self.rule = ""
        self.assumptions: list[str] = []
        self.exhaustive = True
        self.caps: list[str] = []
        self.t0 = time.time()

    @property
    def quick(self):
        return self.tier == "quick"

    def pick(self, quick, thorough):
        return quick if self.tier == "quick" else thorough

    def run_blocks(self, fn, blocks, parallel=True, fresh=True):
        """fn(block, agg) explores one block on the real code. Blocks are sharded over
        forked workers (fork once per worker, never per execution)."""
        blocks = list(blocks)
        if not blocks:
            return
        self.block_fn = fn
        preimport()
        # rotate shard assignment by seed: coverage identical, scheduling differs
        r = self.seed % len(blocks)
        blocks = blocks[r:] + blocks[:r]
        if (not parallel or self.workers <= 1 or len(blocks) == 1) and not fresh:
            for b in blocks:
                self.agg.merge(_worker((fn, b)))
            return
        if fresh:
            return self._run_fresh(fn, blocks)
        ctx = mp.get_context("fork")
        # fresh=True: every block runs in a worker forked from THIS process just for it, so no block sees process
        # state (caches, counters) left behind by another block
        with ctx.Pool(max(1, min(self.workers, len(blocks))), maxtasksperchild=1 if fresh else None) as pool:
            for part in pool.imap_unordered(_worker, [(fn, b) for b in blocks], chunksize=1):
                self.agg.merge(part)


def _run_fresh(self, fn, blocks):
    """every block in its own child forked from THIS process (no state shared between blocks)"""
    import pickle
    import tempfile

    tmp = tempfile.mkdtemp(prefix="mc-fresh-")
    pending = list(enumerate(blocks))[::-1]
    running = {}
    try:
        while pending or running:
            while pending and len(running) < self.workers:
                i, b = pending.pop()
                path = os.path.join(tmp, f"{i}.pkl")
                pid = os.fork()
                if pid == 0:
                    try:
                        agg = _worker((fn, b))
                        with open(path, "wb") as f:
                            pickle.dump(agg, f)
                    finally:
                        os._exit(0)
                running[pid] = (path, b)
            pid, status = os.wait()
            if pid in running:
                path, b = running.pop(pid)
                if os.path.exists(path):
                    with open(path, "rb") as f:
                        self.agg.merge(pickle.load(f))
                    os.unlink(path)
                else:
                    self.agg.notes.add(f"HARNESS-ERROR block {b!r}: child died without a result (status {status})")
    finally:
        import shutil

        shutil.rmtree(tmp, ignore_errors=True)


Ctx._run_fresh = _run_fresh


# ---------------------------------------------------------------------------------------
# known findings
# ---------------------------------------------------------------------------------------

def load_known(prop: str):
    path = VERIF / "known_findings.json"
    if not path.exists():
        return []
    data = json.loads(path.read_text())
    return [f for f in data.get("findings", []) if f.get("property") == prop]


def finding_matches(f: dict, kind: str, sig: dict) -> bool:
    m = f.get("match", {})
    if "kind" in m and m["kind"] != kind:
        return False
    for k, v in m.get("sig", {}).items():
        if sig.get(k) != v:
            return False
    return True


# ---------------------------------------------------------------------------------------
# finishing: replay files, evidence, exit status
# ---------------------------------------------------------------------------------------

def validate_evidence(path: Path):
    schema = Path("/root/.vp/EVIDENCE.schema.json")
    if not schema.exists():
        schema = VERIF / "schemas" / "EVIDENCE.schema.json"
    if not schema.exists():
        return
    code = (
        "import json,sys,jsonschema;"
        "jsonschema.validate(json.load(open(sys.argv[1])), json.load(open(sys.argv[2])))"
    )
    for py in ("python3-vt", "/opt/veriftools/pyvenv/bin/python"):
        try:
            r = subprocess.run([py, "-c", code, str(path), str(schema)], capture_output=True, text=True, timeout=60)
        except (FileNotFoundError, subprocess.TimeoutExpired):
            continue
        if r.returncode != 0:
            raise HarnessError(f"evidence file {path} does not validate: {r.stderr[-800:]}")
        return


def _in_child(fn, arg):
    import pickle
    import tempfile

    fd, path = tempfile.mkstemp(prefix="mc-replay-")
    os.close(fd)
    pid = os.fork()
    if pid == 0:
        try:
            try:
                res = fn(arg)
            except Exception:
                res = [{"kind": "replay-crash", "sig": {}, "detail": traceback.format_exc()[-800:]}]
            with open(path, "wb") as f:
                pickle.dump(res, f)
        finally:
            os._exit(0)
    os.waitpid(pid, 0)
    try:
        with open(path, "rb") as f:
            return pickle.load(f)
    except Exception:
        return [{"kind": "replay-crash", "sig": {}, "detail": "replay child died"}]
    finally:
        os.unlink(path)


def _replay_block(fn, block, key):
    """re-run one block in a forked child of this (clean) process; returns the violations of class `key` it reports"""
    import pickle
    import tempfile

    fd, path = tempfile.mkstemp(prefix="mc-replay-")
    os.close(fd)
    pid = os.fork()
    if pid == 0:
        try:
            agg = _worker((fn, block))
            with open(path, "wb") as f:
                pickle.dump(agg, f)
        finally:
            os._exit(0)
    os.waitpid(pid, 0)
    try:
        with open(path, "rb") as f:
            agg = pickle.load(f)
    except Exception:
        return []
    finally:
        os.unlink(path)
    return [r for _, r in agg.violations.get(key, [])]


def finish(ctx: Ctx, mod, replay_fn=None) -> int:
    agg = ctx.agg
    harness_errors = sorted(n for n in agg.notes if n.startswith("HARNESS-ERROR"))
    known = load_known(ctx.prop)
    out_root = VERIF if str(REPO) == "/repo" else VERIF / "scratch"
    replay_dir = out_root / "replays" / ctx.prop
    if replay_dir.exists():
        for old in replay_dir.glob("*.json"):
            old.unlink()
    unknown_lines = []
    known_hits: dict[str, int] = {}
    flaky = []
    for k in sorted(agg.violations):
        recs = [r for _, r in agg.violations[k]]
        rec = recs[0]
        # re-execute from the recorded case before believing it
        if replay_fn is not None:
            # every replay runs in a child forked from this process, which itself never executes codelimit code: no replay
            # can leave state behind for the next one
            again = _in_child(replay_fn, rec["case"])
            if not again and rec.get("_block") is not None and getattr(ctx, "block_fn", None) is not None:
                # not reproducible on its own: does it reproduce when the whole block it came from is replayed in a fresh
                # process (a failure that depends on what was analysed earlier in the same process)?
                again = _replay_block(ctx.block_fn, rec["_block"], k)
                if again:
                    rec = dict(rec, detail=rec.get("detail", "") + "\n[history-dependent: reproduces only when the cases explored before it in the same "
                               "process are replayed first; block = " + repr(rec["_block"])[:300] + "]")
            if not again:
                flaky.append((k, rec, again))
                continue
            if not any(sig_key(v["kind"], v["sig"]) == k for v in again):
                # the case violates the property on replay too, but is classified differently (history-dependent
                # failures do that): still a violation, reported under the class seen during exploration
                rec = dict(rec, detail=rec.get("detail", "") + f"\n[on replay classified as {[v['kind'] for v in again][:3]}]")
        hit = None
        for f in known:
            if f.get("status") == "known" and finding_matches(f, rec["kind"], rec["sig"]):
                hit = f
                break
        if hit:
            known_hits[hit["id"]] = known_hits.get(hit["id"], 0) + agg.vcount[k]
            continue
        replay_dir.mkdir(parents=True, exist_ok=True)
        h = hashlib.sha1(k.encode()).hexdigest()[:12]
        p = replay_dir / f"{h}.json"
        rec = {kk: vv for kk, vv in rec.items() if kk != "_block"}
        p.write_text(json.dumps({"property": ctx.prop, "count_in_run": agg.vcount[k], **rec},
                                indent=1, ensure_ascii=True, default=str))  # ASCII: cases may hold lone surrogates
        unknown_lines.append((p, rec, agg.vcount[k]))

    for f in known:
        if f.get("status") == "known" and f["id"] in known_hits:
            print(f"KNOWN-FINDING: property={ctx.prop} {f['id']}: {f['what']} [{known_hits[f['id']]} case(s) in this run]")
    for p, rec, n in unknown_lines:
        print(f"VIOLATION property={ctx.prop} replay={p}")
        print(f"  kind={rec['kind']} sig={json.dumps(rec['sig'], ensure_ascii=True)} cases={n}")
        print(f"  case={json.dumps(rec['case'], ensure_ascii=True, default=str)[:600]}")
        if rec.get("detail"):
            print("  detail=" + rec["detail"][:600].replace("\n", "\n    "))

    n_viol = sum(n for _, _, n in unknown_lines)
    level = mod.LEVEL
    cov = {
        "evaluations": agg.evaluations,
        "distinct_nontrivial": len(agg.nontrivial),
        "rule": ctx.rule,
        "samples": agg.samples[: Agg.MAX_SAMPLES] or ["<none>"],
        "states": len(agg.states) if agg.states else agg.evaluations,
        "transitions": agg.transitions if agg.transitions else agg.evaluations,
        "traces_validated_against_impl": agg.traces,
        "distinct_outcomes": len(agg.outcomes),
        "outcome_histogram": dict(sorted(agg.outcomes.items(), key=lambda kv: (-kv[1], kv[0]))[:25]),
        "exhaustive": bool(ctx.exhaustive and not ctx.caps),
        "caps_hit": ctx.caps,
        "bounds": ctx.bounds,
        "known_findings_seen": known_hits,
        "violation_classes": {k: agg.vcount[k] for k in sorted(agg.violations)},
        "counters": dict(agg.extra),
        "workers": ctx.workers,
        "repo": str(REPO),
    }
    ev = {
        "property_id": ctx.prop,
        "tier": ctx.tier,
        "seed": ctx.seed,
        "level": level,
        "coverage": cov,
        "assumptions": ctx.assumptions,
        "wall_s": round(time.time() - ctx.t0, 2),
        "violations": n_viol,
    }
    evdir = out_root / "evidence"
    evdir.mkdir(parents=True, exist_ok=True)
    evpath = evdir / f"{ctx.prop}.json"
    evpath.write_text(json.dumps(ev, indent=1, ensure_ascii=True, default=str) + "\n")
    validate_evidence(evpath)
    print(f"[{ctx.prop}/{ctx.tier}] evaluations={agg.evaluations} nontrivial={len(agg.nontrivial)} "
          f"states={cov['states']} transitions={cov['transitions']} outcomes={len(agg.outcomes)} "
          f"violations={n_viol} known={sum(known_hits.values())} exhaustive={cov['exhaustive']} "
          f"wall={ev['wall_s']}s")
    if harness_errors or flaky:
        for e in harness_errors[:5]:
            print(e, file=sys.stderr)
        for k, rec, again in flaky[:5]:
            print(f"HARNESS-ERROR non-reproducible violation {k}: case={json.dumps(rec['case'], default=str)[:300]} "
                  f"replay gave {[(v['kind'], v['sig']) for v in again][:3]}", file=sys.stderr)
        return 2
    if agg.evaluations == 0:
        print("HARNESS-ERROR nothing explored", file=sys.stderr)
        return 2
    return 1 if unknown_lines else 0
