"""setup_cmd: nothing to build; verify the toolchain and that the working tree is importable."""
import sys

sys.path.insert(0, "/repo")
import codelimit  # noqa
import pygments  # noqa

from mc.refs import regex as R

assert R.member(R.compile_tree(("plus", ("opt", ("a",)))), list("aaa"))
print("mc selftest ok: codelimit from", codelimit.__file__, "pygments", pygments.__version__)
