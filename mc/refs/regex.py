"""R-regex: reference semantics for pattern trees via Brzozowski derivatives.

A tree is a nested tuple:  ("a",) atom | ("cat", l, r) | ("alt", l, r) | ("opt", x) |
("star", x) | ("plus", x).  No code is shared with codelimit.common.gsm.

Derivative terms use ACI-normalised smart constructors so the set of derivatives of a
regex is finite:  EMPTY (no word), EPS (empty word), ("sym", a), ("cat", r, s),
("alt", frozenset), ("star", r).
"""
from __future__ import annotations

from functools import lru_cache

EMPTY = ("empty",)
EPS = ("eps",)


def sym(a):
    return ("sym", a)


def cat(r, s):
    if r == EMPTY or s == EMPTY:
        return EMPTY
    if r == EPS:
        return s
    if s == EPS:
        return r
    if r[0] == "cat":  # right-associate
        return cat(r[1], cat(r[2], s))
    return ("cat", r, s)


def alt(r, s):
    items = set()
    for x in (r, s):
        if x == EMPTY:
            continue
        if x[0] == "alt":
            items |= x[1]
        else:
            items.add(x)
    if not items:
        return EMPTY
    if len(items) == 1:
        return next(iter(items))
    return ("alt", frozenset(items))


def star(r):
    if r == EMPTY or r == EPS:
        return EPS
    if r[0] == "star":
        return r
    return ("star", r)


@lru_cache(maxsize=None)
def compile_tree(t):
    op = t[0]
    if op == "cat":
        return cat(compile_tree(t[1]), compile_tree(t[2]))
    if op == "alt":
        return alt(compile_tree(t[1]), compile_tree(t[2]))
    if op == "opt":
        return alt(EPS, compile_tree(t[1]))
    if op == "star":
        return star(compile_tree(t[1]))
    if op == "plus":
        r = compile_tree(t[1])
        return cat(r, star(r))
    return sym(op)


@lru_cache(maxsize=None)
def nullable(r) -> bool:
    op = r[0]
    if op == "eps" or op == "star":
        return True
    if op == "empty" or op == "sym":
        return False
    if op == "cat":
        return nullable(r[1]) and nullable(r[2])
    if op == "alt":
        return any(nullable(x) for x in r[1])
    raise ValueError(r)


@lru_cache(maxsize=None)
def deriv(r, a):
    op = r[0]
    if op in ("empty", "eps"):
        return EMPTY
    if op == "sym":
        return EPS if r[1] == a else EMPTY
    if op == "cat":
        d = cat(deriv(r[1], a), r[2])
        if nullable(r[1]):
            d = alt(d, deriv(r[2], a))
        return d
    if op == "alt":
        out = EMPTY
        for x in r[1]:
            out = alt(out, deriv(x, a))
        return out
    if op == "star":
        return cat(deriv(r[1], a), r)
    raise ValueError(r)


def run(r, seq):
    for a in seq:
        r = deriv(r, a)
        if r == EMPTY:
            return EMPTY
    return r


def member(r, seq) -> bool:
    return nullable(run(r, seq))


def viable(r, seq) -> bool:
    return run(r, seq) != EMPTY


def shortest_nonempty_prefix(r, seq):
    """Length of the shortest non-empty prefix of seq in L(r), or None."""
    for i, a in enumerate(seq):
        r = deriv(r, a)
        if r == EMPTY:
            return None
        if nullable(r):
            return i + 1
    return None


def greedy_end(r, seq, s):
    """e(s): the largest e such that seq[s:e] is a viable prefix of L(r)."""
    e = s
    for a in seq[s:]:
        r = deriv(r, a)
        if r == EMPTY:
            break
        e += 1
    return e


def longest_word_end(r, seq, s):
    """largest e > s with seq[s:e] in L(r), or None"""
    best = None
    e = s
    for a in seq[s:]:
        r = deriv(r, a)
        if r == EMPTY:
            break
        e += 1
        if nullable(r):
            best = e
    return best


# ---------------------------------------------------------------------------------------
# enumeration of pattern trees
# ---------------------------------------------------------------------------------------

def trees(size: int, atoms: str, _memo={}):
    """All trees with exactly `size` nodes; 'cat' is right-nested only (the real
    expression for a concatenation is a flat list, so associativity is unobservable)."""
    key = (size, atoms)
    if key in _memo:
        return _memo[key]
    out = []
    if size == 1:
        out = [(a,) for a in atoms]
    else:
        for x in trees(size - 1, atoms):
            out.append(("opt", x))
            out.append(("star", x))
            out.append(("plus", x))
        for ls in range(1, size - 1):
            rs = size - 1 - ls
            for l in trees(ls, atoms):
                for r in trees(rs, atoms):
                    if l[0] != "cat":
                        out.append(("cat", l, r))
                    out.append(("alt", l, r))
    _memo[key] = out
    return out


def show(t) -> str:
    op = t[0]
    if op == "cat":
        return f"{show(t[1])} {show(t[2])}"
    if op == "alt":
        return f"({show(t[1])} | {show(t[2])})"
    if op == "opt":
        return f"({show(t[1])})?"
    if op == "star":
        return f"({show(t[1])})*"
    if op == "plus":
        return f"({show(t[1])})+"
    return op


def to_json(t):
    return [t[0]] + [to_json(x) for x in t[1:]]


def from_json(j):
    return tuple([j[0]] + [from_json(x) for x in j[1:]])


def sequences(alphabet: str, maxlen: int):
    out = [""]
    layer = [""]
    for _ in range(maxlen):
        layer = [s + a for s in layer for a in alphabet]
        out.extend(layer)
    return out
