"""G-canon: canonical-fragment program generator.

A program spec (JSON-able) is rendered to text plus ground truth: for every function its name,
the (line, column) of its header's first token, the position just past its body's last token
and its parent function. Own code lines are NOT declared by the generator: they are computed by
the oracle (mc/gen/oracle.py) from raw Pygments tokens, so generator and lexer cannot drift.

spec    = {"lang": L, "unit": "    ", "items": [item, ...]}
item    = {"k": "func", "name": str, "style": str, "body": [stmt, ...]}
        | {"k": "class", "name": str, "members": [func item | {"k": "field"} | comment | blank]}
        | {"k": "global"} | {"k": "comment", "v": "line"|"block"|"mblock"} | {"k": "blank"}
stmt    = {"k": <statement kind>} | func item (nested) | {"k": "anonclass", "method": func item}
          | {"k": "localclass", "method": func item}
"""
from __future__ import annotations

LANGS = ["C", "C++", "C#", "Java", "JavaScript", "TypeScript", "Python"]
EXT = {"C": "c", "C++": "cpp", "C#": "cs", "Java": "java", "JavaScript": "js", "TypeScript": "ts", "Python": "py"}
NESTS = {"C": False, "C++": True, "C#": True, "Java": True, "JavaScript": True, "TypeScript": True, "Python": True}
WRAPPED = {"C#", "Java"}  # top-level functions live inside a class


# ---------------------------------------------------------------------------------------
# header styles: returns (lines, (line index, column offset of first header token), opener)
# opener: "same" -> ' {' appended to last header line, "next" -> '{' on its own line
# ---------------------------------------------------------------------------------------

STYLES = {
    "C": ["same", "next", "multi", "rettype-own-line", "static"],
    "C++": ["same", "next", "multi", "bracegroup", "qualified"],
    "C#": ["same", "next", "multi", "async", "generic-ret"],
    "Java": ["same", "next", "multi", "throws", "throws-multi", "throws-long"],
    "JavaScript": ["same", "next", "multi", "bracegroup", "bracedefault", "async", "arrow", "arrow-async", "arrow-bare", "kw-own-line"],
    "TypeScript": ["same", "next", "multi", "bracegroup", "bracegroup-semi", "rettype", "async", "arrow", "arrow-async", "kw-own-line"],
    "Python": ["same", "multi", "annot", "bracedefault", "async", "decorated"],
}
METHOD_STYLES = {
    "C++": ["same", "next", "multi", "ctor"],
    "C#": ["same", "next", "multi", "async", "ctor"],
    "Java": ["same", "next", "multi", "throws", "throws-long", "ctor"],
    "JavaScript": ["method", "method-static", "method-async"],
    "TypeScript": ["method", "method-typed"],
    "Python": ["same", "multi", "annot", "async"],
}


def header(lang, name, style, method=False):
    """-> (header lines without indentation, (line idx, col offset of first token), opener, closer)"""
    opener, closer = "same", "}"
    if lang == "Python":
        pre = []
        kw = "def"
        first = (0, 0)
        params = "self, a" if method else "a, b"
        if style == "async":
            kw = "async def"
        if style == "decorated":
            pre = ["@decorator(1)"]
            first = (1, 0)
        if style == "multi":
            lines = [f"{kw} {name}(", "        a,", "        b=(1, 2),", "):"]
        elif style == "annot":
            lines = [f"{kw} {name}({params}: int = 3) -> int:"]
        elif style == "bracedefault":
            lines = [f"{kw} {name}(a, b={{}}, c={{'k': (1)}}):"]
        else:
            lines = [f"{kw} {name}({params}):"]
        return pre + lines, first, "python", ""
    if lang in ("JavaScript", "TypeScript"):
        ts = lang == "TypeScript"
        p1 = "a: number, b: string" if ts else "a, b"
        if style in ("arrow", "arrow-async", "arrow-bare"):
            a = "async " if style == "arrow-async" else ""
            decl = "" if style == "arrow-bare" else "const "
            return [f"{decl}{name} = {a}({p1}) =>"], (0, 0), "same", "};"
        if style.startswith("method"):
            mod = {"method-static": "static ", "method-async": "async "}.get(style, "")
            if style == "method-typed":
                return [f"{name}({p1}): void"], (0, 0), "same", "}"
            return [f"{mod}{name}({p1})"], (0, len(mod)), "same", "}"
        pre = "async " if style == "async" else ""
        off = len(pre)
        if style == "multi":
            return [f"function {name}(", f"    {p1.split(', ')[0]},", f"    {p1.split(', ')[1]}", ")"], (0, 0), "same", "}"
        if style == "bracegroup":
            pp = "{ a, b }: { a: number, b: string }, c: number" if ts else "{ a, b }, c"
            return [f"function {name}({pp})"], (0, 0), "same", "}"
        if style == "kw-own-line":
            # the introducing keyword on a line of its own: the function starts there, its NAME is on the next line
            return ["function", f"{name}({p1})"], (0, 0), "same", "}"
        if style == "bracegroup-semi":
            # members of an inline object type may be separated by ';' (statement terminators inside the parameter list)
            return [f"function {name}({{ a, b }}: {{ a: number; b?: string; }}, c: number): number"], (0, 0), "same", "}"
        if style == "bracedefault":
            return [f"function {name}(a = {{}}, b = {{ k: (1) }})"], (0, 0), "same", "}"
        if style == "rettype":
            return [f"function {name}({p1}): string"], (0, 0), "same", "}"
        if style == "next":
            opener = "next"
        return [f"{pre}function {name}({p1})"], (0, off), opener, "}"
    # C family: the documented header starts at the name
    ret = {"C": "int", "C++": "int", "C#": "public int" if method else "int", "Java": "public int"}[lang]
    p = {"C": "int a, char *b", "C++": "int a, const std::string& b", "C#": "int a, string b", "Java": "int a, String b"}[lang]
    if style == "ctor":
        # constructor-like member: nothing in front of the name (package-private / private-by-default), e.g. first thing after the class's '{'
        return [f"{name}({p})"], (0, 0), "same", "}"
    if style == "next":
        opener = "next"
        return [f"{ret} {name}({p})"], (0, len(ret) + 1), opener, "}"
    if style == "multi":
        a, b = p.split(", ")
        return [f"{ret} {name}(", f"        {a},", f"        {b}", ")"], (0, len(ret) + 1), "same", "}"
    if style == "rettype-own-line":
        return ["static int", f"{name}(void)"], (1, 0), "next", "}"
    if style == "static":
        return [f"static inline int {name}({p})"], (0, len("static inline int ")), "same", "}"
    if style == "bracegroup":
        return [f"{ret} {name}(Point p = {{}}, int a = (1))"], (0, len(ret) + 1), "same", "}"
    if style == "qualified":
        # Pygments lexes the qualified name of a definition as ONE Name token: that token is the name
        return [f"void Widget::{name}({p})"], (0, len("void ")), "same", "}"
    if style == "async":
        return [f"public async Task {name}({p})"], (0, len("public async Task ")), "same", "}"
    if style == "generic-ret":
        return [f"private static List<int> {name}({p})"], (0, len("private static List<int> ")), "same", "}"
    if style == "throws":
        return [f"{ret} {name}({p}) throws IOException, RuntimeException"], (0, len(ret) + 1), "same", "}"
    if style == "throws-long":
        # the throws clause is the one unbounded part of a follow-up pattern: make it long
        return [f"{ret} {name}({p}) throws java.io.IOException, java.lang.InterruptedException,", "        IllegalStateException, java.util.concurrent.TimeoutException"], \
               (0, len(ret) + 1), "same", "}"
    if style == "throws-multi":
        return [f"{ret} {name}({p})", "        throws IOException"], (0, len(ret) + 1), "same", "}"
    return [f"{ret} {name}({p})"], (0, len(ret) + 1), "same", "}"


# ---------------------------------------------------------------------------------------
# statements: kind -> list of lines; '\t' = one indentation unit (relative)
# ---------------------------------------------------------------------------------------

def _decl(lang, var, val):
    if lang in ("JavaScript",):
        return f"let {var} = {val};"
    if lang == "TypeScript":
        return f"let {var}: number = {val};"
    if lang == "Python":
        return f"{var} = {val}"
    if lang == "C#":
        return f"var {var} = {val};"
    return f"int {var} = {val};"


def statements(lang):
    """the statement table of one language"""
    if lang == "Python":
        return {
            "simple": ["x = x + 1"],
            "decl": ["y = 2"],
            "call": ["foo(1, 2)"],
            "nestedcall": ["foo(bar(1), baz(qux(2)))"],
            "callmulti": ["foo(1,", "\t\t2)"],
            "if": ["if x > 1:", "\tx = 1"],
            "ifelse": ["if x:", "\tx = 1", "elif y:", "\tx = 2", "else:", "\tx = 3"],
            "for": ["for i in range(3):", "\tfoo(i)"],
            "while": ["while x:", "\tx = x - 1"],
            "with": ["with open(p) as f:", "\tf.read()"],
            "try": ["try:", "\tfoo(1)", "except ValueError as e:", "\tbar(e)", "finally:", "\tbaz()"],
            "return": ["return x"],
            "dictinit": ["d = {", "\t'a': 1,", "\t'b': foo(2),", "}"],
            "listinit": ["l = [", "\t(1, 2),", "\t{3: 4},", "]"],
            "lambda": ["f = lambda a: a + 1"],
            "lambdacall": ["foo(lambda a: (a), key=lambda b: {b})"],
            "string": ["s = \"} { ) ( # not a comment def g():\""],
            "mstring": ["t = '''line1", "  { def h(): (", "'''"],
            "mstring-blank": ["u = \"\"\"", "SELECT 1", "", "", "  FROM t", "\"\"\""],
            "docstring": ['"""doc', "more ( {", '"""'],
            "comment": ["# comment ( {"],
            "trailing": ["x = 3  # trailing } comment"],
            "blank": [""],
            "ffcomment": ["# page \x0c break \u2028 in a comment"],
            "ffstring": ["s2 = 'a\x0cb\u2028c'"],
            "pass": ["pass"],
        }
    js = lang in ("JavaScript", "TypeScript")
    t = {
        "simple": ["x = x + 1;"],
        "decl": [_decl(lang, "y", "2")],
        "call": ["foo(1, 2);"],
        "nestedcall": ["foo(bar(1), baz(qux(2)));"],
        "callmulti": ["foo(1,", "\t\t2);"],
        "if": ["if (x > 1) {", "\tx = 1;", "}"],
        "ifnobrace": ["if (x > 1)", "\tx = 1;"],
        "ifelse": ["if (x) {", "\tx = 1;", "} else if (y) {", "\tx = 2;", "} else {", "\tx = 3;", "}"],
        "ifnext": ["if (x > 1)", "{", "\tx = 1;", "}", "else", "{", "\tx = 2;", "}"],
        "for": ["for (i = 0; i < 3; i++) {", "\tfoo(i);", "}"],
        "while": ["while (x) {", "\tx = x - 1;", "}"],
        "dowhile": ["do {", "\tx = x - 1;", "} while (x > 0);"],
        "switch": ["switch (x) {", "case 1:", "\tfoo(1);", "\tbreak;", "default:", "\tbreak;", "}"],
        "block": ["{", "\tfoo(3);", "}"],
        "return": ["return x;"],
        "string": ["s = \"} { ) ( // not a comment\";"],
        "char": ["c = '{';"],
        "comment": ["// comment ( {"],
        "blockcomment": ["/* block } comment */"],
        "mblockcomment": ["/* multi", "   line { (", "   comment */"],
        "trailing": ["x = 3; // trailing } comment"],
        "trailingblock": ["x = 4; /* trailing { */"],
        "blank": [""],
        "ffcomment": ["// page \x0c break \u2028 in a comment"],
        "ffstring": ["s2 = \"a\x0cb\u2028c\";"],
    }
    if lang == "C":
        t["arrayinit"] = ["int arr[] = { 1, 2, 3 };"]
        t["arrayinitmulti"] = ["int arr2[] = {", "\t1,", "\t(2)", "};"]
        t["structinit"] = ["struct point p = { .x = foo(1), .y = 2 };"]
        t["char"] = ["c = '{';"]
    if lang == "C++":
        t["try"] = ["try {", "\tfoo(1);", "} catch (const std::exception& e) {", "\tbar(2);", "}"]
        t["arrayinit"] = ["int arr[] = { 1, 2, 3 };"]
        t["braceinit"] = ["std::vector<int> v{ 1, 2, 3 };"]
        t["arrayinitmulti"] = ["int arr2[] = {", "\t1,", "\t(2)", "};"]
        t["lambda"] = ["auto lam = [&](int q) {", "\treturn q + 1;", "};"]
        t["lambdacall"] = ["run([=](int q) {", "\tfoo(q);", "});"]
        t["rangefor"] = ["for (auto& e : items) {", "\tfoo(e);", "}"]
    if lang == "Java":
        t["try"] = ["try {", "\tfoo(1);", "} catch (Exception e) {", "\tbar(2);", "} finally {", "\tbaz();", "}"]
        t["sync"] = ["synchronized (this) {", "\tfoo(1);", "}"]
        t["arrayinit"] = ["int[] arr = { 1, 2, 3 };"]
        t["newarray"] = ["int[] arr2 = new int[] {", "\t1,", "\t(2)", "};"]
        t["lambda"] = ["Runnable lam = () -> {", "\tfoo(1);", "};"]
        t["lambdacall"] = ["list.forEach((q) -> {", "\tfoo(q);", "});"]
        t["newcall"] = ["Object o = new Thing(foo(1), 2);"]
        t["foreach"] = ["for (String e : items) {", "\tfoo(e);", "}"]
        t["emptyanon"] = ["Object o2 = new Thing() {", "};"]
    if lang == "C#":
        t["try"] = ["try {", "\tfoo(1);", "} catch (Exception e) {", "\tbar(2);", "} finally {", "\tbaz();", "}"]
        t["using"] = ["using (var r = open(1)) {", "\tfoo(r);", "}"]
        t["lock"] = ["lock (this) {", "\tfoo(1);", "}"]
        t["foreach"] = ["foreach (var e in items) {", "\tfoo(e);", "}"]
        t["arrayinit"] = ["int[] arr = { 1, 2, 3 };"]
        t["newarray"] = ["var arr2 = new int[] {", "\t1,", "\t(2)", "};"]
        t["objinit"] = ["var o = new Thing {", "\tA = 1,", "\tB = foo(2)", "};"]
        t["objinitctor"] = ["var o2 = new Thing() {", "\tA = 1", "};"]
        t["lambda"] = ["Action lam = () => {", "\tfoo(1);", "};"]
        t["lambdacall"] = ["items.ForEach((q) => {", "\tfoo(q);", "});"]
        t["newcall"] = ["var o3 = new Thing(foo(1), 2);"]
    if js:
        t["for"] = ["for (let i = 0; i < 3; i++) {", "\tfoo(i);", "}"]
        t["try"] = ["try {", "\tfoo(1);", "} catch (e) {", "\tbar(e);", "} finally {", "\tbaz();", "}"]
        t["objinit"] = ["const o = {", "\ta: 1,", "\tb: foo(2),", "};"]
        t["arrayinit"] = ["const arr = [1, { k: 2 }, (3)];"]
        t["funcexpr"] = ["foo(function (q) {", "\tbar(q);", "});"]
        t["arrowcall"] = ["foo((q) => {", "\tbar(q);", "});"]
        t["arrowbare"] = ["items.forEach(q => {", "\tbar(q);", "});"]
        t["arrowexpr"] = ["const g = (q) => q + 1;"]
        t["iife"] = ["(function () {", "\tfoo(4);", "})();"]
        t["template"] = ["const t = `line1", "  { function h() { (", "`;"]
        t["template-blank"] = ["const u = `", "line1", "", "  line3 }", "`;"]
        t["newcall"] = ["const o3 = new Thing(foo(1), 2);"]
        t["nosemi"] = ["x = foo(5)"]
    return t


def global_lines(lang):
    if lang == "Python":
        return ["CONSTANT = foo(1)"]
    if lang in ("Java", "C#"):
        return ["private int field = 1;"]
    if lang in ("JavaScript", "TypeScript"):
        return ["const constant = foo(1);"]
    return ["int global_var = 1;"]


def comment_lines(lang, v):
    if v == "ff":
        return ["\x0c"]  # a form-feed "page break": whitespace for every lexer, a line boundary only for str.splitlines()
    if lang == "Python":
        return ["# top-level comment {"]
    if v == "block":
        return ["/* block comment ( */"]
    if v == "mblock":
        return ["/*", " * multi-line {", " */"]
    return ["// line comment {"]


# ---------------------------------------------------------------------------------------
# rendering
# ---------------------------------------------------------------------------------------

class Out:
    def __init__(self, unit):
        self.lines: list[str] = []
        self.funcs: list[dict] = []
        self.unit = unit

    def emit(self, depth, text):
        self.lines.append((self.unit * depth + text.replace("\t", self.unit)) if text else "")
        return len(self.lines)  # 1-based line number

    def last_code_end(self, line_no, text_len_without_comment=None):
        return line_no


def _strip_trailing_comment(kind, text):
    """code part of a template line (templates only use trailing comments in the 'trailing*' kinds)"""
    if kind == "trailing":
        for marker in ("  #", " //"):
            if marker in text:
                return text[: text.index(marker)].rstrip()
    if kind == "trailingblock":
        return text[: text.index(" /*")].rstrip()
    return text


def render_stmt(out: Out, lang, stmt, depth, parent):
    """returns end position (line, col past last code char) of the statement's last code token, or None"""
    k = stmt["k"]
    if k == "func":
        return render_func(out, lang, stmt, depth, parent)
    if k == "anonclass":  # Java: statement holding an anonymous class with one method
        out.emit(depth, "Runnable r = new Runnable() {")
        render_func(out, lang, stmt["method"], depth + 1, parent, method=True)
        ln = out.emit(depth, "};")
        return (ln, len(out.lines[-1]) + 1)
    if k == "localclass":  # C++ / Java local class with one method
        out.emit(depth, "struct Local {" if lang == "C++" else "class Local {")
        render_func(out, lang, stmt["method"], depth + 1, parent, method=True)
        ln = out.emit(depth, "};" if lang == "C++" else "}")
        return (ln, len(out.lines[-1]) + 1)
    table = statements(lang)
    if k not in table:
        raise KeyError(f"{lang} has no statement kind {k}")
    end = None
    for text in table[k]:
        ln = out.emit(depth, text)
        code = _strip_trailing_comment(k, out.lines[-1])
        if k in ("comment", "blockcomment", "mblockcomment", "blank", "ffcomment"):
            continue
        if code.strip():
            end = (ln, len(code) + 1)
    return end


def render_func(out: Out, lang, f, depth, parent, method=False):
    name, style = f["name"], f.get("style", "same")
    hl, (fl, fc), opener, closer = header(lang, name, style, method)
    fid = len(out.funcs)
    rec = {"id": fid, "name": ("Widget::" + name) if (lang == "C++" and style == "qualified") else name,
           "parent": parent, "style": style, "method": method}
    out.funcs.append(rec)
    first_line = None
    for i, text in enumerate(hl):
        last = i == len(hl) - 1
        if last and opener == "same":
            text = text + " {"
        ln = out.emit(depth, text)
        if i == fl:
            first_line = ln
    rec["start"] = (first_line, len(out.unit * depth) + fc + 1)
    if opener == "next":
        out.emit(depth, "{")
    end = None
    body = f.get("body", [])
    for s in body:
        e = render_stmt(out, lang, s, depth + 1, fid)
        if e is not None:
            end = e
    if lang == "Python":
        if end is None:
            raise ValueError("python function without a code statement")
        rec["end"] = end
        return end
    ln = out.emit(depth, closer)
    rec["end"] = (ln, len(out.unit * depth) + 2)
    return (ln, len(out.lines[-1]) + 1)


def render_class(out: Out, lang, c, depth):
    name = c["name"]
    if lang == "Python":
        out.emit(depth, f"class {name}(Base):")
    elif lang == "C++":
        out.emit(depth, f"class {name} : public Base {{")
        out.emit(depth, "public:")
    elif lang == "Java":
        out.emit(depth, f"static class {name} extends Base {{")
    elif lang == "C#":
        out.emit(depth, f"public class {name} : Base {{")
    elif lang == "C":
        out.emit(depth, f"struct {name} {{")
    else:
        out.emit(depth, f"class {name} extends Base {{")
    for m in c.get("members", []):
        if m["k"] == "func":
            if lang == "C":
                out.emit(depth + 1, "int (*callback)(int a);")
            else:
                render_func(out, lang, m, depth + 1, None, method=True)
        elif m["k"] == "field":
            text = {"Python": "attr = foo(1)", "JavaScript": "field = 1;", "TypeScript": "field: number = 1;", "C": "int field;",
                    "C++": "int field = 1;"}.get(lang, "private int field2 = 1;")
            out.emit(depth + 1, text)
        elif m["k"] == "comment":
            for t in comment_lines(lang, m.get("v", "line")):
                out.emit(depth + 1, t)
        else:
            out.emit(0, "")
    if lang != "Python":
        out.emit(depth, "};" if lang in ("C++", "C") else "}")


def render(spec):
    """-> (text, [func truth dicts])"""
    lang = spec["lang"]
    out = Out(spec.get("unit", "    "))
    depth = 0
    if lang in WRAPPED:
        out.emit(0, "public class Main {" if lang == "Java" else "public class Program {")
        depth = 1
    for it in spec["items"]:
        k = it["k"]
        if k == "func":
            render_func(out, lang, it, depth, None, method=lang in WRAPPED)
        elif k == "class":
            render_class(out, lang, it, depth)
        elif k == "global":
            for t in global_lines(lang):
                out.emit(depth, t)
        elif k == "comment":
            for t in comment_lines(lang, it.get("v", "line")):
                out.emit(depth, t)
        elif k == "blank":
            out.emit(0, "")
        else:
            raise ValueError(k)
    if lang in WRAPPED:
        out.emit(0, "}")
    text = "\n".join(out.lines) + "\n"
    return text, out.funcs


def nestable_stmt(lang, func_item):
    """how a nested function appears as a statement of its parent's body"""
    if lang in ("JavaScript", "TypeScript", "Python", "C#"):
        return func_item
    if lang == "Java":
        return {"k": "anonclass", "method": dict(func_item, m=True)}
    if lang == "C++":
        return {"k": "localclass", "method": dict(func_item, m=True)}
    raise ValueError(lang)
