"""Malformed-input families shared by C03 (totality) and C05 (well-formed output).

An input is a JSON-able descriptor so that it can be replayed:
    {"fam": "soup", "lang": L, "lex": [indices]}
    {"fam": "damage", "lang": L, "seed": i, "op": "prefix"|"suffix"|"tokdel"|"tokdup"|"tokswap"|"linedel"|"linedup"|"lineswap", "at": n}
    {"fam": "deep", "lang": L, "shape": str, "d": n}
    {"fam": "seed", "lang": L, "seed": i}
text_of(descriptor) renders it.
"""
from __future__ import annotations

import itertools
import re

from mc.gen import canon, programs

ALPHABET = {
    "C": ["x", "(", ")", "{", "}", ";", "\n", "="],
    "C++": ["x", "(", ")", "{", "}", ";", "\n", "::"],
    "C#": ["x", "(", ")", "{", "}", ";", "\n", "new"],
    "Java": ["x", "(", ")", "{", "}", ";", "\n", "throws", "new", "record"],
    "JavaScript": ["x", "(", ")", "{", "}", "function", "=", "=>", "const", "async", "\n", ";"],
    "TypeScript": ["x", "(", ")", "{", "}", "function", "=", "=>", "const", "async", ":", "\n"],
    "Python": ["def", "x", "(", ")", ":", "\n", "\n    ", "\n        ", "async"],
}
TRIM = 8  # alphabet size used for the longest soups


def soup_text(lang, idxs, alphabet=None):
    a = alphabet or ALPHABET[lang]
    out = ""
    for i in idxs:
        lx = a[i]
        if lx.startswith("\n"):
            out += lx
        else:
            out += (" " if out and not out.endswith((" ", "\n")) and not out.endswith("    ") else "") + lx
    return out


def seeds(lang):
    """~10 canonical seed programs per language (specs)"""
    S, f = programs.S, programs.func
    out = []
    for st in canon.STYLES[lang][:5]:
        out.append({"lang": lang, "items": [f("f0", [S("simple"), S("if"), S("call")], st), {"k": "global"}]})
    sk = programs.skeletons(lang)
    for name in ("two", "class-two-methods", "nested-middle", "nested-last", "nested-3-levels"):
        if name in sk:
            out.append(sk[name])
    rich = [S(k) for k in ("string", "trailing", "comment", "nestedcall") if k in canon.statements(lang)]
    out.append({"lang": lang, "items": [f("f0", rich + [S(programs.anon_kind(lang))])]})
    return out


_SEED_TEXT = {}


def seed_text(lang, i):
    key = (lang, i)
    if key not in _SEED_TEXT:
        _SEED_TEXT[key] = canon.render(seeds(lang)[i])[0]
    return _SEED_TEXT[key]


TOKEN_RE = re.compile(r"\s+|[A-Za-z_][A-Za-z_0-9]*|\d+|\"[^\"\n]*\"|'[^'\n]*'|=>|::|->|.", re.S)


def split_tokens(text):
    return TOKEN_RE.findall(text)


JUNK_COUNTS = (1, 4, 12, 40)


def damage_ops(text):
    """all single damages of a text: (op, at) pairs"""
    ops = []
    for i in range(len(text) + 1):
        ops.append(("prefix", i))
    for i in range(1, len(text)):
        ops.append(("suffix", i))
    toks = split_tokens(text)
    for i, t in enumerate(toks):
        if t.strip():
            ops.append(("tokdel", i))
            ops.append(("tokdup", i))
            ops.append(("tokswap", i))
    lines = text.split("\n")
    for i in range(len(lines)):
        ops.append(("linedel", i))
        ops.append(("linedup", i))
        ops.append(("lineswap", i))
    # a line of k characters that no lexer of the seven knows (each becomes one Error token): pasted binary, a merge-conflict
    # leftover, another language's sigils - before every line, few and many (more than a small function has tokens)
    for i in range(len(lines)):
        for k in JUNK_COUNTS:
            ops.append((f"junk{k}", i))
    return ops


def apply_damage(text, op, at):
    if op == "prefix":
        return text[:at]
    if op == "suffix":
        return text[at:]
    if op.startswith("tok"):
        toks = split_tokens(text)
        if op == "tokdel":
            toks = toks[:at] + toks[at + 1:]
        elif op == "tokdup":
            toks = toks[:at + 1] + [" "] + toks[at:]
        else:
            j = at + 1
            while j < len(toks) and not toks[j].strip():
                j += 1
            if j < len(toks):
                toks[at], toks[j] = toks[j], toks[at]
        return "".join(toks)
    lines = text.split("\n")
    if op.startswith("junk"):
        return "\n".join(lines[:at] + [" ".join("\u00a7" * int(op[4:]))] + lines[at:])
    if op == "linedel":
        lines = lines[:at] + lines[at + 1:]
    elif op == "linedup":
        lines = lines[:at + 1] + lines[at:]
    elif op == "lineswap" and at + 1 < len(lines):
        lines[at], lines[at + 1] = lines[at + 1], lines[at]
    return "\n".join(lines)


def deep_text(lang, shape, d):
    py = lang == "Python"
    if shape == "parens":
        return ("x = " if not py else "x = ") + "f(" * d + "1" + ")" * d + "\n"
    if shape == "open-parens":
        return "f(" * d + "\n"
    if shape == "blocks":
        if py:
            return "".join(" " * i + "if x:\n" for i in range(d)) + " " * d + "pass\n"
        return "void f() " + "{" * d + " x(); " + "}" * d + "\n" if lang not in ("JavaScript", "TypeScript") else "function f() " + "{" * d + " x(); " + "}" * d + "\n"
    if shape == "functions":
        if py:
            return "".join(" " * i + f"def f{i}():\n" for i in range(d)) + " " * d + "pass\n"
        head = {"JavaScript": "function f{i}() {{", "TypeScript": "function f{i}() {{"}.get(lang, "void f{i}() {{")
        return "".join(head.format(i=i) + "\n" for i in range(d)) + "x();\n" + "}\n" * d
    if shape == "open-functions":
        if py:
            return "".join(" " * i + f"def f{i}():\n" for i in range(d))
        head = {"JavaScript": "function f{i}() {{", "TypeScript": "function f{i}() {{"}.get(lang, "void f{i}() {{")
        return "".join(head.format(i=i) + "\n" for i in range(d))
    if shape == "header-groups":
        return ("def f" if py else "void f") + "()" * d + (":\n    pass\n" if py else " {\n}\n")
    raise ValueError(shape)


DEEP_SHAPES = ["parens", "open-parens", "blocks", "functions", "open-functions", "header-groups"]


def corpus_files(lang):
    import pathlib

    d = pathlib.Path(__file__).resolve().parent.parent.parent / "corpus" / canon.EXT[lang]
    return sorted(p.name for p in d.glob("*"))


_CORPUS_TEXT = {}


def corpus_text(lang, name):
    import pathlib

    key = (lang, name)
    if key not in _CORPUS_TEXT:
        d = pathlib.Path(__file__).resolve().parent.parent.parent / "corpus" / canon.EXT[lang]
        _CORPUS_TEXT[key] = (d / name).read_text(encoding="utf-8")
    return _CORPUS_TEXT[key]


def text_of(desc):
    fam, lang = desc["fam"], desc["lang"]
    if fam == "wild":
        from mc.gen import wild

        return dict(wild.snippets(lang))[desc["name"]]
    if fam == "wdamage":
        from mc.gen import wild

        return apply_damage(dict(wild.snippets(lang))[desc["name"]], desc["op"], desc["at"])
    if fam == "corpus":
        text = corpus_text(lang, desc["name"])
        if "op" not in desc:
            return text
        lines = text.split("\n")
        if desc["op"] == "linecut":
            return "\n".join(lines[: desc["at"]]) + "\n"
        return "\n".join(lines[: desc["at"]] + lines[desc["at"] + 1:])
    if fam == "soup":
        return soup_text(lang, desc["lex"], desc.get("alphabet"))
    if fam == "seed":
        return seed_text(lang, desc["seed"])
    if fam == "damage":
        return apply_damage(seed_text(lang, desc["seed"]), desc["op"], desc["at"])
    if fam == "deep":
        return deep_text(lang, desc["shape"], desc["d"])
    if fam == "text":
        return desc["text"]
    raise ValueError(fam)


def soup_blocks(lang, n, trimmed):
    """work units: (lang, n, first lexeme index, alphabet)"""
    a = ALPHABET[lang][:TRIM] if trimmed else ALPHABET[lang]
    return [(lang, n, first, a) for first in range(len(a))]


def soups_of_block(block):
    lang, n, first, a = block
    for rest in itertools.product(range(len(a)), repeat=n - 1):
        yield {"fam": "soup", "lang": lang, "lex": [first] + list(rest), **({"alphabet": a} if a != ALPHABET[lang] else {})}


def wild_descs(lang, stride=1):
    from mc.gen import wild

    out = []
    for name, text in wild.snippets(lang):
        out.append({"fam": "wild", "lang": lang, "name": name})
        for op, at in damage_ops(text):
            if op in ("prefix", "suffix") and at % stride:
                continue
            out.append({"fam": "wdamage", "lang": lang, "name": name, "op": op, "at": at})
    return out


def corpus_descs(lang, nfiles, stride=1):
    out = []
    for name in corpus_files(lang)[:nfiles]:
        out.append({"fam": "corpus", "lang": lang, "name": name})
        n = corpus_text(lang, name).count("\n")
        for at in range(1, n, stride):
            out.append({"fam": "corpus", "lang": lang, "name": name, "op": "linecut", "at": at})
            out.append({"fam": "corpus", "lang": lang, "name": name, "op": "linedel", "at": at})
    return out
