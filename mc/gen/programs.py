"""Enumerators of canonical program specs (E1 small-scope product, E2 deviation-bounded
skeletons, E3 length sweeps) shared by C01 / C04 / C05 / C17."""
from __future__ import annotations

import copy
import itertools

from mc.gen import canon

BOUNDARY = [1, 14, 15, 16, 29, 30, 31, 59, 60, 61]


def anon_kind(lang):
    return {"JavaScript": "funcexpr", "TypeScript": "arrowcall", "Java": "lambda", "C#": "lambda", "C++": "lambda",
            "Python": "lambdacall", "C": "arrayinitmulti"}[lang]


def func(name, body, style="same", m=False):
    d = {"k": "func", "name": name, "style": style, "body": body}
    if m:
        d["m"] = True
    return d


def S(kind):
    return {"k": kind}


def nested(lang, name, body, style=None):
    style = style or ("same" if lang not in ("Java", "C++") else "same")
    return canon.nestable_stmt(lang, func(name, body, style))


# ---------------------------------------------------------------------------------------
# E1: small-scope full product
# ---------------------------------------------------------------------------------------

def e1_bodies(lang, kinds, max_stmts=2):
    """all bodies of 1..max_stmts statements over `kinds` (+ 'nested' where the language nests)"""
    opts = list(kinds)
    if canon.NESTS[lang]:
        opts.append("nested")
    out = []
    for n in range(1, max_stmts + 1):
        for combo in itertools.product(opts, repeat=n):
            if lang == "Python" and all(c in ("comment", "blank", "ffcomment") for c in combo):
                continue
            out.append(combo)
    return out


def e1_build_body(lang, combo, prefix):
    body = []
    for i, c in enumerate(combo):
        if c == "nested":
            body.append(nested(lang, f"{prefix}n{i}", [S("simple")]))
        else:
            body.append(S(c))
    return body


def e1_programs(lang, kinds, max_items=3, max_stmts=2):
    bodies = e1_bodies(lang, kinds, max_stmts)
    item_opts = [("F", b) for b in bodies]
    if lang != "C":
        item_opts += [("C", b) for b in bodies]
    item_opts += [("G", None), ("K", None)]
    for n in range(1, max_items + 1):
        for combo in itertools.product(range(len(item_opts)), repeat=n):
            yield e1_spec(lang, [item_opts[i] for i in combo])


def e1_spec(lang, items):
    out = []
    for idx, (k, b) in enumerate(items):
        if k == "F":
            out.append(func(f"f{idx}", e1_build_body(lang, b, f"f{idx}")))
        elif k == "C":
            mstyle = canon.METHOD_STYLES[lang][0]
            out.append({"k": "class", "name": f"K{idx}", "members": [func(f"m{idx}", e1_build_body(lang, b, f"m{idx}"), mstyle, m=True)]})
        elif k == "G":
            out.append({"k": "global"})
        else:
            out.append({"k": "comment", "v": "line"})
    return {"lang": lang, "items": out}


# ---------------------------------------------------------------------------------------
# E2: skeletons x bounded deviations
# ---------------------------------------------------------------------------------------

def skeletons(lang):
    s3 = lambda: [S("simple"), S("simple"), S("simple")]
    sk = {
        "single": [func("f0", s3())],
        "two": [func("f0", s3()), func("f1", [S("simple"), S("simple")])],
        "func-global-func": [func("f0", s3()), {"k": "global"}, func("f1", [S("simple")])],
        "formfeed-between": [func("f0", [S("simple"), S("ffcomment"), S("simple")]), {"k": "comment", "v": "ff"}, func("f1", [S("ffstring"), S("simple")]),
                             {"k": "comment", "v": "ff"}, {"k": "global"}, func("f2", [S("simple")])],
    }
    if lang != "C":
        ms = canon.METHOD_STYLES[lang][0]
        sk["class-two-methods"] = [{"k": "class", "name": "K0", "members": [func("m0", s3(), ms, m=True), {"k": "field"}, func("m1", [S("simple"), S("simple")], ms, m=True)]}]
        if "ctor" in canon.METHOD_STYLES[lang]:
            sk["class-ctor-first"] = [{"k": "class", "name": "K0", "members": [func("K0x", s3(), "ctor", m=True), func("m1", [S("simple")], ms, m=True), func("K0y", [S("simple")], "ctor", m=True)]}]
        sk["func-global-class"] = [func("f0", [S("simple"), S("simple")]), {"k": "global"},
                                   {"k": "class", "name": "K0", "members": [func("m0", [S("simple")], ms, m=True)]}, func("f1", [S("simple")])]
    if canon.NESTS[lang]:
        inner = lambda n: nested(lang, n, [S("simple"), S("simple")])
        sk["nested-first"] = [func("f0", [inner("g0"), S("simple"), S("simple")])]
        sk["nested-middle"] = [func("f0", [S("simple"), inner("g0"), S("simple")])]
        sk["nested-last"] = [func("f0", [S("simple"), S("simple"), inner("g0")])]
        sk["nested-only"] = [func("f0", [inner("g0")]), func("f1", [S("simple")])]
        sk["nested-two"] = [func("f0", [S("simple"), inner("g0"), S("simple"), inner("g1"), S("simple")])]
        lvl3 = nested(lang, "g0", [S("simple"), nested(lang, "h0", [S("simple")]), S("simple")])
        sk["nested-3-levels"] = [func("f0", [S("simple"), lvl3, S("simple")])]
        # a deep nest FOLLOWED by a shallower sibling: after h0 (depth 2) closes, g1 is a child of f0 again, g2 comes after g1's own child
        sk["nested-3-levels-then-sibling"] = [func("f0", [S("simple"), nested(lang, "g0", [S("simple"), nested(lang, "h0", [S("simple")])]),
                                                          nested(lang, "g1", [nested(lang, "h1", [S("simple")]), S("simple")]), nested(lang, "g2", [S("simple")]), S("simple")]),
                                              func("f1", [S("simple")])]
        lvl4 = nested(lang, "g0", [S("simple"), nested(lang, "h0", [nested(lang, "i0", [S("simple")]), S("simple")])])
        sk["nested-4-levels"] = [func("f0", [S("simple"), lvl4]), func("f1", [S("simple")])]
    return {k: {"lang": lang, "items": v} for k, v in sk.items()}


def walk_slots(spec):
    """yields ('stmt', container list, index) for every plain statement slot and ('func', dict) for every function"""
    def in_func(f):
        yield ("func", f)
        body = f["body"]
        for i, s in enumerate(body):
            if s["k"] == "func":
                yield from in_func(s)
            elif s["k"] in ("anonclass", "localclass"):
                yield from in_func(s["method"])
            else:
                yield ("stmt", body, i)

    for it in spec["items"]:
        if it["k"] == "func":
            yield from in_func(it)
        elif it["k"] == "class":
            for m in it["members"]:
                if m["k"] == "func":
                    yield from in_func(m)


def deviations(spec, stmt_kinds, units=("  ", "\t")):
    """all single deviations of a spec: list of (description, apply(spec_copy))"""
    lang = spec["lang"]
    devs = []
    slots = list(walk_slots(spec))
    for si, slot in enumerate(slots):
        if slot[0] == "stmt":
            for kind in stmt_kinds:
                if kind == "simple":
                    continue
                devs.append(("stmt", si, kind))
        else:
            f = slot[1]
            styles = canon.METHOD_STYLES[lang] if f.get("m") else canon.STYLES[lang]
            for st in styles:
                if st != f.get("style", "same"):
                    devs.append(("style", si, st))
    for u in units:
        devs.append(("unit", None, u))
    return devs


def apply_devs(spec, devs):
    sp = copy.deepcopy(spec)
    slots = list(walk_slots(sp))
    for kind, si, val in devs:
        if kind == "stmt":
            _, body, i = slots[si]
            body[i] = {"k": val}
        elif kind == "style":
            slots[si][1]["style"] = val
        elif kind == "unit":
            sp["unit"] = val
    return sp


def e2_programs(lang, stmt_kinds, k):
    """every skeleton with <= k deviations (distinct slots)"""
    for sname, spec in skeletons(lang).items():
        devs = deviations(spec, stmt_kinds)
        yield sname, [], spec
        for n in range(1, k + 1):
            for combo in itertools.combinations(devs, n):
                targets = [(d[0], d[1]) for d in combo]
                if len(set(targets)) < len(targets):
                    continue
                sp = apply_devs(spec, combo)
                if lang == "Python" and not python_ok(sp):
                    continue
                if not grammar_ok(sp):
                    continue
                yield sname, [list(d) for d in combo], sp


def grammar_ok(spec):
    """outside the canonical grammar: a call statement without terminating semicolon directly followed by a
    bare block - `x = foo(5)` newline `{` is lexically a method definition `foo(5) {`."""
    for slot in walk_slots(spec):
        if slot[0] != "func":
            continue
        body = slot[1]["body"]
        for i, s in enumerate(body):
            if s["k"] != "nosemi":
                continue
            for nxt in body[i + 1:]:
                if nxt["k"] in ("comment", "blockcomment", "mblockcomment", "blank", "ffcomment"):
                    continue
                if nxt["k"] == "block":
                    return False
                break
    return True


def python_ok(spec):
    """every python function needs at least one code statement that is last-resort body"""
    for slot in walk_slots(spec):
        if slot[0] == "func":
            body = slot[1]["body"]
            if all(s["k"] in ("comment", "blank", "ffcomment") for s in body):
                return False
    return True


# ---------------------------------------------------------------------------------------
# E3: length sweeps
# ---------------------------------------------------------------------------------------

def single_line_kinds(lang):
    t = canon.statements(lang)
    return [k for k, v in t.items() if len(v) == 1 and k not in ("comment", "blockcomment", "blank", "ffcomment")]


def header_lines(lang, style, method=False):
    hl, _, opener, closer = canon.header(lang, "x", style, method)
    return hl, opener


def e3_programs(lang, full):
    """(description, spec, {function name: intended own length})"""
    lengths = list(range(1, 71)) if full else sorted(set(BOUNDARY + [2, 3, 45, 70]))
    for style in canon.STYLES[lang]:
        for n in lengths:
            yield f"len-{style}", {"lang": lang, "items": [func("f0", [S("simple")] * n, style)]}
    for kind in single_line_kinds(lang):
        if kind == "simple":
            continue
        for n in BOUNDARY:
            yield f"fill-{kind}", {"lang": lang, "items": [func("f0", [S(kind)] * n)]}
    if canon.NESTS[lang]:
        bset = BOUNDARY if full else [1, 15, 16, 30, 31, 60, 61]
        for a in bset:
            for c in bset:
                pre = a // 2
                post = a - pre
                body = [S("simple")] * pre + [nested(lang, "g0", [S("simple")] * c)] + [S("simple")] * post
                yield "parent-child", {"lang": lang, "items": [func("f0", body)]}
