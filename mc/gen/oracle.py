"""Ground truth from (text, generator function records) using raw Pygments tokens and
independent offset arithmetic; comparison with codelimit's measurements."""
from __future__ import annotations

from functools import lru_cache

from mc.gen.canon import EXT


@lru_cache(maxsize=None)
def lexer(lang):
    from pygments.lexers import get_lexer_for_filename

    return get_lexer_for_filename("x." + EXT[lang])


def line_starts(text):
    starts = [0]
    for i, c in enumerate(text):
        if c == "\n":
            starts.append(i + 1)
    return starts


def raw_code_tokens(lang, text):
    """[(offset, type, value)] of non-empty, non-whitespace, non-comment tokens"""
    from pygments.token import Comment, Text

    out = []
    for off, ty, val in lexer(lang).get_tokens_unprocessed(text):
        if val == "" or (ty in Text and val.isspace()) or ty in Comment:
            continue
        out.append((off, ty, val))
    return out


def pos_to_off(starts, pos):
    return starts[pos[0] - 1] + pos[1] - 1


def off_to_line(starts, off):
    import bisect

    return bisect.bisect_right(starts, off)


def expected(lang, text, funcs, nests=True):
    """-> list of (name, (sl, sc), (el, ec), length) in source order.
    For a language that does not report nested functions (C) only outermost ones are expected."""
    starts = line_starts(text)
    toks = raw_code_tokens(lang, text)
    spans = {f["id"]: (pos_to_off(starts, f["start"]), pos_to_off(starts, f["end"])) for f in funcs}
    reported = [f for f in funcs if nests or f["parent"] is None]
    rep_ids = {f["id"] for f in reported}
    out = []
    for f in reported:
        s, e = spans[f["id"]]
        inner = [spans[g["id"]] for g in reported if g["id"] != f["id"] and spans[g["id"]][0] >= s and spans[g["id"]][1] <= e]
        lines = set()
        for off, ty, val in toks:
            if s <= off < e and not any(a <= off < b for a, b in inner):
                lines.add(off_to_line(starts, off))
        out.append((f["name"], tuple(f["start"]), tuple(f["end"]), len(lines)))
    out.sort(key=lambda r: r[1])
    return out


def measured(lang, text):
    from codelimit.common.lexer_utils import lex
    from codelimit.common.Scanner import scan_file
    from codelimit.languages import Languages

    ms = scan_file(lex(lexer(lang), text, False), Languages.by_name[lang])
    return [(m.unit_name, (m.start.line, m.start.column), (m.end.line, m.end.column), m.value) for m in ms]


def selfcheck_truth(lang, text, funcs):
    """the generator's claimed positions must point at the claimed tokens (binds generator to lexer)"""
    starts = line_starts(text)
    toks = raw_code_tokens(lang, text)
    by_off = {off: (ty, val) for off, ty, val in toks}
    ends = {off + len(val) for off, ty, val in toks}
    problems = []
    for f in funcs:
        s, e = pos_to_off(starts, f["start"]), pos_to_off(starts, f["end"])
        if s not in by_off:
            problems.append(f"{f['name']}: start {f['start']} is not the start of a code token")
        if e not in ends:
            problems.append(f"{f['name']}: end {f['end']} is not just past a code token")
        from pygments.token import Name

        if not any(val == f["name"] and ty in Name and s <= off < e for off, ty, val in toks):
            problems.append(f"{f['name']}: name is not lexed as one Name token inside the span")
    return problems


def scan_text(lang, text):
    """real lex + scan_file -> list of Measurement objects"""
    from codelimit.common.lexer_utils import lex
    from codelimit.common.Scanner import scan_file
    from codelimit.languages import Languages

    return scan_file(lex(lexer(lang), text, False), Languages.by_name[lang])


def wellformed(lang, text, ms):
    """C05 oracle. ms: list of (name, (sl, sc), (el, ec), value). returns list of (kind, sig, detail).
    Positions are checked against raw Pygments offsets with independent arithmetic."""
    from pygments.token import Name

    out = []
    lines = text.split("\n")
    starts = line_starts(text)
    toks = raw_code_tokens(lang, text)
    tok_starts = {off for off, _, _ in toks}
    tok_ends = {off + len(val) for off, _, val in toks}
    prev_start = None
    for name, (sl, sc), (el, ec), value in ms:
        sig = {"language": lang}
        if not (isinstance(sl, int) and isinstance(sc, int) and isinstance(el, int) and isinstance(ec, int) and isinstance(value, int)):
            out.append(("measurement-field-not-int", sig, f"{name}: {(sl, sc, el, ec, value)}"))
            continue
        if not (1 <= sl <= el <= len(lines)):
            out.append(("line-out-of-range", sig, f"{name}: lines {sl}..{el} in a text of {len(lines)} lines"))
            continue
        if not (1 <= sc <= max(1, len(lines[sl - 1]))):
            out.append(("start-column-out-of-range", sig, f"{name}: start column {sc} on a line of length {len(lines[sl - 1])}"))
            continue
        if not (1 <= ec <= len(lines[el - 1]) + 1):
            out.append(("end-position-invalid", sig, f"{name}: end column {ec} on line {el} of length {len(lines[el - 1])}"))
            continue
        s_off = starts[sl - 1] + sc - 1
        e_off = starts[el - 1] + ec - 1
        if s_off not in tok_starts:
            out.append(("start-not-at-code-token", sig, f"{name}: start {(sl, sc)}"))
        if e_off not in tok_ends:
            out.append(("end-position-invalid", sig, f"{name}: end {(el, ec)} is not just past a code token"))
        if not s_off < e_off:
            out.append(("empty-or-inverted-span", sig, f"{name}: {(sl, sc)}..{(el, ec)}"))
            continue
        if not any(val == name and ty in Name and s_off <= off < e_off for off, ty, val in toks):
            out.append(("name-not-an-identifier-in-span", sig, f"{name!r} is not the text of a Name token inside {(sl, sc)}..{(el, ec)}"))
        code_lines = {off_to_line(starts, off) for off, _, _ in toks if s_off <= off < e_off}
        if not (1 <= value <= len(code_lines)):
            out.append(("length-out-of-range", sig, f"{name}: length {value}, span has {len(code_lines)} code-bearing lines"))
        if prev_start is not None and not (prev_start < (sl, sc)):
            out.append(("not-in-source-order", sig, f"{name} at {(sl, sc)} after a measurement at {prev_start}"))
        prev_start = (sl, sc)
    return out


def as_tuples(ms):
    return [(m.unit_name, (m.start.line, m.start.column), (m.end.line, m.end.column), m.value) for m in ms]
