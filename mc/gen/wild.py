"""Hand-written realistic snippets that are OUTSIDE the canonical grammar of C01 (the tool may or may
not find their functions) but are legitimate inputs for every input-universal property: totality
(C03), well-formed output (C05), comment/blank-line invariance (C04), marker metamorphism (C17),
determinism (C06). One dict per language: name -> text."""

FF = "\x0c"

WILD = {
    "TypeScript": {
        "curried-and-immediately-invoked": """const add = (a: number) => (b: number): number => {
  return a + b;
};
const job = (async (): Promise<void> => {
  await run();
})();
export const selectTotal = (state: State) => (id: string) => state.items[id];
""",
        "generic-functions": """function pick<T extends Record<string, number>>(obj: T) {
  return obj;
}
function on<T extends (e: Event) => void>(cb: T) {
  cb(null as any);
}
function a<T
const later = (x) => {
  return x;
};
const p = () => { return 1; }; function q(): number { return 2; }
""",
        "object-return-types": """function origin(): { x: number, y: number } {
  return { x: 0, y: 0 };
}
function pick(a: string): string;
function pick(a: any): { v: any; w?: { deep: number } } {
  switch (a) {
    case toKind(1): {
      return { v: a };
    }
  }
  return { v: a };
}
abstract class Base {
  abstract area(): { w: number; h: number };
  size(): { w: number } { return { w: 1 }; }
}
declare function ext(a: number): { r: number };
""",
        "interface-signatures": """interface Shape {
  origin: { x: number; y: number };
  area(scale: number): number;
  move(dx: number, dy: number): void;
}
""",
        "overloads": """function pick(a: string): string;
function pick(a: number): number;
function pick(a: any): any {
  return a;
}
class Box<T> {
  private items: { key: string }[] = [];
  get(i: number): T;
  get(i: string): T;
  get(i: any): T {
    return this.items[i] as any;
  }
  abstract_like(x: number): void;
}
""",
        "ternary-and-case": """function f(c: boolean, x: number) {
  const d = { a: 1 };
  const y = c ? g(x) : h(x);
  switch (y) {
    case k(1):
      return { v: y };
    default:
      return c ? m(y) : null;
  }
}
""",
        "generics-arrows": """export const id = <T>(x: T): T => {
  return x;
};
const on = async <T extends (e: Event) => void>(cb: T) => {
  await cb(null as any);
};
@Component({ selector: 'x' })
export class C {
  constructor(private readonly s: Service) {
    this.s = s;
  }
  @Input() set value(v: string) {
    this._v = v;
  }
}
""",
    },
    "JavaScript": {
        "curried-and-immediately-invoked": """const add = (a) => (b) => {
  return a + b;
};
const pipe = (...fns) => (x) => fns.reduce((v, f) => f(v), x);
const job = (async () => {
  await run();
})();
const handler = useCallback((e) => (dispatch) => {
  dispatch(e);
}, []);
export const selectTotal = (state) => (id) => state.items[id];
""",
        "several-functions-per-line": """const a = () => { return 1; }; function b() { return 2; }
function c() { return 3; } const d = (x) => { return x; };
const api = { open() { return 1; }, close() { return 2; } };
<!-- html style comment
function e() {
  return 5;
}
""",
        "class-members": """class A extends B {
  static #count = 0;
  field = { a: 1 };
  constructor(x) {
    super(x);
  }
  get size() {
    return this._s;
  }
  set size(v) {
    this._s = v;
  }
  *gen() {
    yield 1;
  }
  async *agen() {
    yield 2;
  }
  ['computed' + 1]() {
    return 3;
  }
}
""",
        "objects-and-iife": """const api = {
  run(a, b) {
    return a + b;
  },
  stop: function () {
    return 0;
  },
  go: (x) => {
    return x;
  },
};
const app = (function () {
  let total = 0;
  total = (total + 1);
  const load = async (url) => {
    return fetch(url);
  };
  return { load };
})();
export default function (req, res) {
  res.end();
}
""",
        "defaults-and-regex": """const f = (cb = () => 0, opts = { a: (1) }) => {
  return cb();
};
function g(a = h(1), { b, c } = {}) {
  const r = /[{(]\\/\\//g;
  return a / b / c;
}
label: for (;;) { break label; }
""",
    },
    "Python": {
        "unicode-names": "def \u00b5s_to_ms(t):\n    return t / 1000\n\ndef \ufb01le_size(p):\n    return len(p)\n\nclass K:\n    def \uff4d\uff45\uff54\uff48(self):\n        return 1\n    def cafe\u0301(self):\n        return 2\n",
        "long-marker-comments": "def generated():  # nocl: this function is a generated state machine and is kept in one piece on purpose (see docs/design.md#generated)!\n    return 1\n\n# nocl-------------------------------------------------------------------------------- (separator, not a marker for anything)\ndef other():\n    return 2\n",
        "stubs-and-overloads": """from typing import overload

@overload
def get(a: int) -> int: ...
@overload
def get(a: str) -> str: ...
def get(a):
    return a

def size(a): return len(a)
def after(a):
    x = 1
    return x
""",
        "decorators-and-defaults": """@app.route("/x", methods=["GET"])
@cache(ttl=(60 * 2))
async def handler(req, *, retries=make_default(3), opts={"a": (1, 2)}):
    async with lock(req) as l:
        async for item in stream(l):
            yield item
    match req:
        case {"k": v}:
            return v
        case _:
            return None

class K:
    x: int = field(default_factory=lambda: {1: (2)})
    def m(self): return 1
    class Inner:
        def n(self):
            def deep():
                return 1
            return deep
""",
        "odd-whitespace": "def f(a):\n    \"\"\"doc" + FF + "with form feed\n    second\u2028line\n    \"\"\"\n\ndef g(a):\n    x = 1 \\\n        + 2\n    return x \\\n\n",
        "strings": "def f():\n    sql = \"\"\"\nSELECT 1\n\n  FROM t\n\"\"\"\n    s = f\"{a!r:>{w}} {{}}\"\n    return sql\n",
        "pep695": "def first[T: (int, str)](\n    a: T,\n    b: list[T],\n) -> T:\n    return a\n\nclass Box[T]:\n    def get[U](self, u: U) -> T:\n        return self.v\n",
    },
    "Java": {
        "unicode-names": "class T {\n    int \u00b5s(int t) {\n        return t;\n    }\n    int \ufb01le(int p) { // nocl: generated accessor, intentionally long explanation follows here (really)\n        return p;\n    }\n}\n",
        "one-liners": """class T { int one() { return 1; } int two() { return 2; }
    void run() { executor.submit(new Callable<Void>() { public Void call() throws Exception { return null; } }); }
}
""",
        "annotations-generics": """@Entity(name = "x")
public abstract class Repo<T extends Comparable<T>> implements Store<T> {
    @Override
    public <U> Map<String, List<U>> find(@Param("a") String a, Function<T, U> f) throws java.io.IOException, java.lang.InterruptedException, IllegalStateException {
        return list.stream().map(x -> f.apply(x)).collect(Collectors.toList());
    }
    abstract void later();
    default void hook() {
    }
    static {
        init(new int[] { 1, 2 });
    }
    int[] arr = new int[] { 1, 2 };
    Runnable r = new Runnable() {
        public void run() {
            go();
        }
    };
    record Point(int x, int y) {
        Point {
            check(x);
        }
    }
}
""",
        "interface-and-enum": """interface Shape {
    double area(double scale);
    default String name() { return "s"; }
}
enum Op {
    ADD("+") {
        int apply(int a, int b) { return a + b; }
    },
    SUB("-") {
        int apply(int a, int b) { return a - b; }
    };
    Op(String s) { this.s = s; }
    abstract int apply(int a, int b);
}
""",
    },
    "C#": {
        "one-liners": """class T { int One() { return 1; } int Two() { return 2; }
    int Three() { return 3; } }
""",
        "properties-and-expression-bodies": """namespace N {
    [Serializable]
    public class P<T> where T : class, new() {
        public int X { get; set; } = 1;
        public int Y => X + 1;
        public int Sq(int a) => a * a;
        public string Name {
            get { return _n; }
            set { _n = value; }
        }
        public event EventHandler Changed;
        public P(int x) : base(x) {
            X = x;
        }
        public static P<T> operator +(P<T> a, P<T> b) {
            return a;
        }
        public async Task<int> Run(Func<int, Task<int>> f) {
            var o = new Thing { A = 1 };
            var l = new List<int> { 1, 2 };
            return await f(1);
        }
        ~P() {
            Free();
        }
    }
}
""",
    },
    "C++": {
        "constructors": """class Point : public Shape {
public:
    Point(int x, int y) : Shape(name(x, y)), x_(x), y_(y) {
        init();
    }
    int x() { return x_; }
};

Circle::Circle(double d)
    : x_(round(d)),
      r_(d / 2)
{
    init();
}
""",
        "member-qualifiers": """struct S : Base {
    int size() const { return n; }
    void draw() const override { x(); }
    void stop() noexcept override final { y(); }
    int get() const noexcept { return 1; }
    int vol() const volatile { return 2; }
    auto name() const -> std::string { return s; }
    void plain() { z(); }
};
""",
        "disabled-regions": """int one() { return 1; } int two() { return 2; }
int with_disabled(int a) {
#if 0
    old_code(a);
    if (a) { legacy(); }
#endif
    a = a + 1;
    return a;
}
void reset() noexcept(noexcept(T{})) {
    x();
}
""",
        "templates-and-init-lists": """template <typename T, int N = (2 + 1)>
class Vec : public Base<T> {
public:
    Vec(int a, int b) : Base<T>(a), x_{a}, y_(b) {
        init();
    }
    T get(int i) const noexcept override {
        return d[i];
    }
    bool operator==(const Vec& o) const { return x_ == o.x_; }
    static constexpr int size() { return N; }
    ~Vec() = default;
private:
    int x_{0}, y_{0};
};
#define MAX(a, b) ((a) > (b) ? (a) : (b))
namespace ns { inline int f(int a = g(1)) { return a; } }
auto lam = [](auto&&... xs) -> decltype(auto) { return (xs + ...); };
extern "C" {
void c_api(void) {
    run();
}
}
""",
    },
    "C": {
        "long-marker-comments": "int generated(void) { /* nocl: this function is a generated state machine and is kept in one piece on purpose (see docs) */\n    return 1;\n}\n// nocl - - - - - - - - - - - - - - - - - - - - - - - - - - - - - - - - - - - - - - - - - - \"quoted\" /\nint other(void)\n{\n    return 2;\n}\n",
        "disabled-regions": """int one(void) { return 1; } int two(void) { return 2; }
int with_disabled(int a)
{
#if 0
    old_code(a);
    more_old_code({ a });
#endif
    a = a + 1;
#ifdef X
    a = x(a);
#else
    a = y(a);
#endif
    return a;
}
""",
        "pointers-and-macros": """#include <stdio.h>
#define CHECK(x) do { if (!(x)) { return -1; } } while (0)
typedef int (*cb_t)(int, void *);
static int (*table[])(int) = { f1, f2 };
struct s { int a; union { int b; float c; } u; };
int
old_style(a, b)
    int a;
    char *b;
{
    return a;
}
static inline int add(int a, int b) { return a + b; }
int (*get_cb(int k))(int, void *) {
    CHECK(k);
    return table[k];
}
#if defined(X) && \\
    defined(Y)
void guarded(void) {
}
#endif
""",
    },
}


_LONG = "compute_the_monthly_aggregated_statistics_for_every_customer_segment_and_region_including_the_adjustments_of_the_previous_quarter_v2"  # 130+ characters


def _long_identifier(lang):
    if lang == "Python":
        return f"def {_LONG}(a):\n    return a\n\ndef {_LONG}_b(a):\n    return a + 1\n"
    if lang in ("JavaScript", "TypeScript"):
        return f"function {_LONG}(a) {{\n  return a;\n}}\nfunction {_LONG}_b(a) {{\n  return a + 1;\n}}\n"
    body = f"int {_LONG}(int a) {{\n    return a;\n}}\nint {_LONG}_b(int a) {{\n    return a + 1;\n}}\n"
    return body if lang in ("C", "C++") else "class K {\n" + body + "}\n"


def snippets(lang):
    d = dict(WILD.get(lang, {}))
    d["long-identifiers"] = _long_identifier(lang)
    return sorted(d.items())
