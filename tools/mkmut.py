#!/usr/bin/env python3
"""tools/mkmut.py <name> <file relative to /repo> <old> <new> [<file> <old> <new> ...]
writes /verif/mutants/<name>.diff (a unified diff against /repo's working tree)."""
import difflib
import pathlib
import sys

name = sys.argv[1]
rest = sys.argv[2:]
out = ""
by_file = {}
for i in range(0, len(rest), 3):
    by_file.setdefault(rest[i], []).append((rest[i + 1], rest[i + 2]))
for rel, subs in by_file.items():
    src = pathlib.Path("/repo", rel).read_text()
    new = src
    for old, rep in subs:
        old = old.encode().decode("unicode_escape")
        rep = rep.encode().decode("unicode_escape")
        if new.count(old) != 1:
            sys.exit(f"{rel}: pattern occurs {new.count(old)} times: {old!r}")
        new = new.replace(old, rep)
    out += "".join(difflib.unified_diff(src.splitlines(True), new.splitlines(True), f"a/{rel}", f"b/{rel}"))
p = pathlib.Path("/verif/mutants", name + ".diff")
p.parent.mkdir(exist_ok=True)
p.write_text(out)
print(p)
