#!/bin/bash
# tools/run_all.sh [quick|thorough]  - runs every claimed check, prints one summary line each
tier=${1:-quick}
cd /verif
for i in $(seq -w 1 19); do
  id=C$i
  s=$(date +%s)
  out=$(/venv/bin/python -m mc.run $id --tier $tier 2>&1)
  rc=$?
  e=$(date +%s)
  echo "$id rc=$rc $((e-s))s $(echo "$out" | grep -E '^\[' | tail -1)"
  echo "$out" | grep -E '^(VIOLATION|KNOWN-FINDING|HARNESS)' | cut -c1-200
done
