#!/usr/bin/env python3
"""Runs every mutant (mutants/*.diff, seeded/*/patch.diff) against its property's quick check on a scratch copy
and writes /verif/DETECTION.md.  tools/detect_all.py [--only prefix]"""
import glob, json, os, re, shutil, subprocess, sys, tempfile
from concurrent.futures import ThreadPoolExecutor

only = sys.argv[sys.argv.index("--only") + 1] if "--only" in sys.argv else ""
only_re = re.compile(sys.argv[sys.argv.index("--match") + 1]) if "--match" in sys.argv else None
items = []
for p in sorted(glob.glob("/verif/mutants/*.diff")):
    name = os.path.basename(p)[:-5]
    if name.startswith(only) and (only_re is None or only_re.search(name)):
        items.append((name, p, ["C" + name[1:3]], "own"))
for d in sorted(glob.glob("/verif/seeded/*/")):
    meta = json.load(open(d + "meta.json"))
    name = os.path.basename(d.rstrip("/"))
    if name.startswith(only) and (only_re is None or only_re.search(name)):
        items.append((name, d + "patch.diff", meta.get("checks") or [meta["property"]], "seeded"))


def run(item):
    name, patch, checks, kind = item
    dst = tempfile.mkdtemp(prefix="det-", dir="/tmp")
    try:
        subprocess.run(["rsync", "-a", "--exclude", ".git", "--exclude", "examples", "/repo/", dst + "/"], check=True)
        r = subprocess.run(["patch", "-p1", "-s", "-i", patch], cwd=dst, capture_output=True, text=True)
        if r.returncode:
            return name, kind, "PATCH DOES NOT APPLY", []
        t = subprocess.run(["/venv/bin/python", "-m", "pytest", "-q", "-p", "no:cacheprovider"], cwd=dst, env=dict(os.environ, PYTHONPATH=dst), capture_output=True, text=True)
        tests = (t.stdout.strip().splitlines() or ["?"])[-1]
        tests = re.sub(r" in [0-9.]+s.*", "", tests).replace(", 272 warnings", "").replace(", 320 warnings", "")
        res = []
        for c in checks:
            env = dict(os.environ, MC_REPO=dst)
            env.pop("MC_PINNED", None)
            q = subprocess.run(["/venv/bin/python", "-m", "mc.run", c, "--tier", "quick", "--workers", "4"], cwd="/verif", env=env, capture_output=True, text=True)
            kinds = sorted(set(re.findall(r"kind=(\S+)", q.stdout)))
            res.append((c, q.returncode, kinds))
        print(f"{name}: {[(c, rc) for c, rc, _ in res]}", flush=True)
        return name, kind, tests, res
    finally:
        shutil.rmtree(dst, ignore_errors=True)


with ThreadPoolExecutor(4) as ex:
    results = list(ex.map(run, items))
lines = ["# Detection record", "",
         "Every row: a property-breaking change applied to a scratch copy of /repo (rsync, never /repo itself), the repository's own test",
         "suite run on the copy, then the property's *quick* check run with MC_REPO pointing at the copy. `exit 1` = the check printed a",
         "VIOLATION line. `own` = written by the author of the checks (DESIGN.md section 6); `seeded` = written independently by a sub-agent",
         "that saw only the property text (see seeded/<name>/meta.json). Regenerate with `tools/detect_all.py`.", "",
         "| change | origin | repository tests | check | exit | violation kinds reported |", "|---|---|---|---|---|---|"]
for name, kind, tests, res in results:
    if not res:
        lines.append(f"| {name} | {kind} | {tests} | - | - | - |")
    for c, rc, kinds in res:
        lines.append(f"| {name} | {kind} | {tests} | {c} | {rc} | {', '.join(kinds)[:160]} |")
if "--append" in sys.argv and os.path.exists("/verif/DETECTION.md"):
    # keep the existing record, replace / add the rows of the changes that were just run
    names = {name for name, *_ in results}
    old = [l for l in open("/verif/DETECTION.md").read().splitlines() if not (l.startswith("| ") and l.split("|")[1].strip() in names)]
    new_rows = [l for l in lines if l.startswith("| ") and l.split("|")[1].strip() in names]
    lines = old + new_rows
open("/verif/DETECTION.md", "w").write("\n".join(lines) + "\n")
missed = [(n, c) for n, k, t, res in results for c, rc, kinds in res if rc != 1]
print(f"{len(results)} changes; not detected: {missed}")
