#!/usr/bin/env python3
"""False-alarm guard: applies each property-PRESERVING change (benign/*.diff) to a scratch copy of /repo, runs the repository's
tests and every quick check with MC_REPO pointing at the copy. Every check must exit 0 (known findings allowed).
tools/try_benign.py [name-prefix] [--checks C01,C02]"""
import glob, os, re, shutil, subprocess, sys, tempfile

args = [a for a in sys.argv[1:] if not a.startswith("--")]
only = args[0] if args else ""
checks = [f"C{i:02d}" for i in range(1, 20)]
if "--checks" in sys.argv:
    checks = sys.argv[sys.argv.index("--checks") + 1].split(",")
bad = []
for p in sorted(glob.glob("/verif/benign/*.diff")):
    name = os.path.basename(p)[:-5]
    if not name.startswith(only):
        continue
    dst = tempfile.mkdtemp(prefix="ben-", dir="/tmp")
    try:
        subprocess.run(["rsync", "-a", "--exclude", ".git", "--exclude", "examples", "/repo/", dst + "/"], check=True)
        r = subprocess.run(["patch", "-p1", "-s", "-i", p], cwd=dst, capture_output=True, text=True)
        if r.returncode:
            print(f"{name}: PATCH DOES NOT APPLY {r.stdout[-200:]}")
            bad.append((name, "patch"))
            continue
        t = subprocess.run(["/venv/bin/python", "-m", "pytest", "-q", "-p", "no:cacheprovider"], cwd=dst, env=dict(os.environ, PYTHONPATH=dst), capture_output=True, text=True)
        print(f"{name}: tests: {(t.stdout.strip().splitlines() or ['?'])[-1]}", flush=True)
        for c in checks:
            env = dict(os.environ, MC_REPO=dst)
            env.pop("MC_PINNED", None)
            q = subprocess.run(["/venv/bin/python", "-m", "mc.run", c, "--tier", "quick"], cwd="/verif", env=env, capture_output=True, text=True)
            kinds = sorted(set(re.findall(r"kind=(\S+)", q.stdout)))
            print(f"   {c}: exit={q.returncode} {kinds if q.returncode else ''}", flush=True)
            if q.returncode:
                bad.append((name, c))
                print("      " + "\n      ".join((q.stdout + q.stderr).strip().splitlines()[-6:]))
    finally:
        shutil.rmtree(dst, ignore_errors=True)
print("FALSE ALARMS / BROKEN:", bad)
sys.exit(1 if bad else 0)
