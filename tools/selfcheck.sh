#!/bin/bash
# tools/selfcheck.sh <ID> : runs the quick check under two seeds in fresh processes and diffs the evidence modulo wall_s/seed
id=$1
cd /verif
VERIF_SEED=1 /venv/bin/python -m mc.run $id --tier quick > /tmp/self1.out 2>&1; r1=$?
python3 -c "
import json;d=json.load(open('/verif/evidence/$id.json'));d.pop('wall_s');d.pop('seed');json.dump(d,open('/tmp/self1.json','w'),sort_keys=True,indent=1)"
VERIF_SEED=7 /venv/bin/python -m mc.run $id --tier quick > /tmp/self2.out 2>&1; r2=$?
python3 -c "
import json;d=json.load(open('/verif/evidence/$id.json'));d.pop('wall_s');d.pop('seed');json.dump(d,open('/tmp/self2.json','w'),sort_keys=True,indent=1)"
if diff -q /tmp/self1.json /tmp/self2.json >/dev/null && [ $r1 = $r2 ]; then echo "$id selfcheck OK (rc=$r1)"; else echo "$id selfcheck DIFFERS (rc $r1/$r2)"; diff /tmp/self1.json /tmp/self2.json | head -20; fi
