#!/usr/bin/env python3
"""Apply a patch to a scratch copy of /repo, run the repository's own tests and the named
checks against the copy (MC_REPO), clean up.   tools/try_patch.py <patch.diff> C01 C05 ... [--tier quick] [--no-tests]
"""
import os
import shutil
import subprocess
import sys
import tempfile

args = [a for a in sys.argv[1:] if not a.startswith("--")]
tier = "quick"
if "--tier" in sys.argv:
    tier = sys.argv[sys.argv.index("--tier") + 1]
    args.remove(tier)
patch, ids = args[0], args[1:]
dst = tempfile.mkdtemp(prefix="mcscratch-", dir="/tmp")
try:
    subprocess.run(["rsync", "-a", "--exclude", ".git", "--exclude", "examples", "/repo/", dst + "/"], check=True)
    r = subprocess.run(["patch", "-p1", "-s", "-i", os.path.abspath(patch)], cwd=dst)
    if r.returncode:
        sys.exit("patch does not apply")
    env = dict(os.environ, PYTHONPATH=dst)
    if "--no-tests" not in sys.argv:
        r = subprocess.run(["/venv/bin/python", "-m", "pytest", "-q", "-p", "no:cacheprovider", "-x"], cwd=dst, env=env,
                           capture_output=True, text=True)
        print("TESTS:", r.stdout.strip().splitlines()[-1] if r.stdout.strip() else r.stderr[-300:])
    for pid in ids:
        env = dict(os.environ, MC_REPO=dst)
        env.pop("MC_PINNED", None)
        r = subprocess.run(["/venv/bin/python", "-m", "mc.run", pid, "--tier", tier], cwd="/verif", env=env, capture_output=True, text=True)
        lines = [l for l in r.stdout.splitlines() if l.startswith(("VIOLATION", "KNOWN", "[", "  kind"))]
        print(f"{pid}: exit={r.returncode}")
        for l in lines[:8]:
            print("   ", l[:300])
        if r.returncode == 2:
            print(r.stderr[-1500:])
finally:
    shutil.rmtree(dst, ignore_errors=True)
