#!/usr/bin/env python3
"""summarise violation classes of the last run of a check: tools/vsum.py C01 [scratch]"""
import json, sys, collections
pid = sys.argv[1]
root = "/verif/scratch/evidence" if len(sys.argv) > 2 else "/verif/evidence"
d = json.load(open(f"{root}/{pid}.json"))
agg = collections.Counter()
for k, n in d["coverage"]["violation_classes"].items():
    kind, sig = k.split("|", 1)
    sig = json.loads(sig)
    key = (kind, sig.get("language", ""), sig.get("style", sig.get("name", "")), "d%s" % sig.get("depth", ""), "kids" if sig.get("has_children") else "")
    agg[key] += n
for k, n in sorted(agg.items()):
    print(n, *k)
