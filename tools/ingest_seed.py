#!/usr/bin/env python3
"""tools/ingest_seed.py <ID> <N> [extra check ids...]: verify a sub-agent's seeded change (/tmp/seed/<ID>/out/patchN.diff, demoN.py,
metaN.json): tests pass with it, demo fails with it and passes without; then run our quick check(s); store under /verif/seeded/<ID>-<N>/."""
import json, os, shutil, subprocess, sys, tempfile, re

pid, n = sys.argv[1], sys.argv[2]
checks = [pid] + sys.argv[3:]
src = f"{os.environ.get('SEED_DIR', '/tmp/seed')}/{pid}/out"
patch, demo, meta = f"{src}/patch{n}.diff", f"{src}/demo{n}.py", f"{src}/meta{n}.json"
dst = tempfile.mkdtemp(prefix="ing-", dir="/tmp")
clean = tempfile.mkdtemp(prefix="ingc-", dir="/tmp")
PY = "/venv/bin/python"
try:
    for d in (dst, clean):
        subprocess.run(["rsync", "-a", "--exclude", ".git", "--exclude", "examples", "--exclude", "out", "/repo/", d + "/"], check=True)
    r = subprocess.run(["patch", "-p1", "-s", "-i", patch], cwd=dst, capture_output=True, text=True)
    if r.returncode:
        sys.exit(f"patch does not apply: {r.stdout} {r.stderr}")
    t = subprocess.run([PY, "-m", "pytest", "-q", "-p", "no:cacheprovider"], cwd=dst, env=dict(os.environ, PYTHONPATH=dst), capture_output=True, text=True)
    tests = (t.stdout.strip().splitlines() or ["?"])[-1]
    d1 = subprocess.run([PY, demo], cwd="/tmp", env=dict(os.environ, PYTHONPATH=dst), capture_output=True, text=True, timeout=600)
    d0 = subprocess.run([PY, demo], cwd="/tmp", env=dict(os.environ, PYTHONPATH=clean), capture_output=True, text=True, timeout=600)
    ok = ("passed" in tests and "failed" not in tests and d1.returncode == 1 and d0.returncode == 0)
    print(f"{pid}-{n}: tests[{tests}] demo(with patch)={d1.returncode} demo(clean)={d0.returncode} -> {'CONFIRMED' if ok else 'REJECTED'}")
    if not ok:
        print(d1.stdout[-500:], d1.stderr[-500:], d0.stdout[-300:], d0.stderr[-300:])
    results = {}
    for c in checks:
        env = dict(os.environ, MC_REPO=dst)
        env.pop("MC_PINNED", None)
        q = subprocess.run([PY, "-m", "mc.run", c, "--tier", "quick"], cwd="/verif", env=env, capture_output=True, text=True)
        kinds = sorted(set(re.findall(r"kind=(\S+)", q.stdout)))
        results[c] = {"exit": q.returncode, "kinds": kinds}
        print(f"   {c}: exit={q.returncode} {kinds[:5]}")
        if q.returncode == 2:
            print(q.stderr[-800:])
    if ok:
        out = f"/verif/seeded/{pid}-{int(n) + int(os.environ.get('SEED_OFFSET', 0))}"
        os.makedirs(out, exist_ok=True)
        shutil.copy(patch, out + "/patch.diff")
        shutil.copy(demo, out + "/demo.py")
        m = json.load(open(meta))
        m.update({"property": pid, "checks": checks, "verified": {"repository_tests_with_patch": tests, "demo_exit_with_patch": d1.returncode,
                  "demo_exit_clean": d0.returncode, "how": "rsync scratch copies of /repo (patched / clean), PYTHONPATH=<copy> pytest, demo.py on both"},
                  "quick_check_result_when_ingested": results, "origin": "sub-agent given only the property text and its own worktree"})
        json.dump(m, open(out + "/meta.json", "w"), indent=1, ensure_ascii=False)
finally:
    shutil.rmtree(dst, ignore_errors=True)
    shutil.rmtree(clean, ignore_errors=True)
